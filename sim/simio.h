// Simulated stdio layer for from_file(): fopen/fseek/fread/feof/fclose are wrapped at link time
// (-Wl,--wrap=...).  Paths under /simfs/ resolve to an in-memory file table with a fault plan.
#pragma once
#include <cstdint>
#include <string>
#include <vector>

namespace simio {

struct FilePlan {
    std::vector<uint8_t> data;
    bool open_fails{false};       // fopen returns NULL
    bool is_directory{false};     // fopen succeeds, every fread fails with the error flag, never EOF
    bool seek_fails{false};       // fseek returns -1 and does not move
    int64_t hard_error_at{-1};    // byte position from which every fread fails (error flag, no EOF): persistent EIO
    int64_t transient_error_at{-1};   // byte position at which ONE fread returns 0 without EOF, later reads succeed
};

struct Counters {
    int64_t opens{0}, open_failures{0}, seeks{0}, seek_failures{0}, reads{0}, read_errors{0}, transient_errors{0}, short_reads{0}, eof_hits{0}, closes{0};
};

void install(const std::string& path, const FilePlan& plan);
void clear();
Counters counters();
int open_handles();

}   // namespace simio
