// C12 — adaptive filters: a-priori error, lock as a control event at arbitrary sample times, convergence
// within bounded simulated time after the last event.  The simulator owns the sample clock, the framing
// and the lock/unlock events; the per-sample recursion itself is not what is decided.
#include "dsp_util.h"
#include "simrun.h"

#include <memory>

namespace vf {
namespace {

using cd = std::complex<long double>;

// op "flt": algo cplx L p1 p2 wseed wlen dseed      (algo 0 LMS: p1=mu p2=leak; 1 NLMS: same; 2 RLS: p1=lambda p2=delta)
// op "frame": n         one call on n samples
// op "ones": n          n single-sample calls
// op "lock" / "unlock"
// op "settle": n fseed  n samples in seeded frames, then the convergence oracle

template<class T>
struct Traits;
template<>
struct Traits<real_t> {
    static cd up(real_t v) {
        return cd(v, 0);
    }
    static real_t down(cd v) {
        return real_t(v.real());
    }
    static constexpr bool cplx = false;
};
template<>
struct Traits<cmplx_t> {
    static cd up(cmplx_t v) {
        return cd(v.re, v.im);
    }
    static cmplx_t down(cd v) {
        return cmplx_t{real_t(v.real()), real_t(v.imag())};
    }
    static constexpr bool cplx = true;
};

double ulp_of(double v) {
    v = std::fabs(v);
    return std::nextafter(v, INFINITY) - v;
}

template<class T, class F>
struct Runner {
    F flt;
    int algo;
    int L;
    double p1, p2;
    std::vector<cd> w0;     // unknown system (plain-sum convention: d[k] = sum w0[i] x[k-i])
    std::vector<cd> x;      // whole input stream so far (absolute sample clock)
    Rng data;
    Result& res;
    int conv{0};            // 0 unknown, 1: y = sum c x, 2: y = sum conj(c) x
    bool locked{false};
    dsplib::base_array<T> lock_snapshot;
    int64_t unlocked_samples{0};
    int64_t last_event_at{0};
    int lock_toggles_inside{0};
    bool saw_frame{false};
    std::string pattern;
    // least-squares accumulation (real RLS, short horizons): normal equations over UNLOCKED samples
    bool track_ls{false};
    std::vector<long double> lsA, lsb;
    std::unique_ptr<F> twin;   // a copy made mid-stream; it is fed the same calls and must return the same y, e and coeffs()

    template<class... A>
    Runner(int algo_, int L_, double p1_, double p2_, uint32_t wseed, int wlen, uint32_t dseed, Result& r, A... a)
      : flt(L_, a...)
      , algo(algo_)
      , L(L_)
      , p1(p1_)
      , p2(p2_)
      , data(mix(dseed, 0xDA7A))
      , res(r) {
        Rng wr(mix(wseed, 0x5157));
        w0.assign(size_t(L), cd(0, 0));
        for (int i = 0; i < wlen && i < L; ++i) {
            w0[size_t(i)] = Traits<T>::cplx ? cd(wr.normal(), wr.normal()) : cd(wr.normal(), 0);
        }
        // wseed odd: a system with a bulk delay (leading zero taps); otherwise the first tap is kept away from zero
        if ((wseed & 2u) != 0 && wlen >= 2) {
            const int lead = 1 + int(wr.below(uint64_t(std::min(wlen - 1, 3))));
            for (int i = 0; i < lead; ++i) {
                w0[size_t(i)] = cd(0, 0);
            }
            if (std::abs(w0[size_t(lead)]) < 0.1L) {
                w0[size_t(lead)] = cd(1, 0);
            }
        } else if (std::abs(w0[0]) < 0.1L) {
            w0[0] = cd(1, 0);
        }
        track_ls = (!Traits<T>::cplx) && (algo == 2) && (L <= 8);
        if (track_ls) {
            lsA.assign(size_t(L * L), 0.0L);
            lsb.assign(size_t(L), 0.0L);
        }
    }

    cd xat(int64_t k) const {
        return (k >= 0 && k < int64_t(x.size())) ? x[size_t(k)] : cd(0, 0);
    }

    cd fir(const std::vector<cd>& c, int64_t k, bool conj_c) const {
        cd acc(0, 0);
        for (int i = 0; i < L; ++i) {
            acc += (conj_c ? std::conj(c[size_t(i)]) : c[size_t(i)]) * xat(k - i);
        }
        return acc;
    }

    long double fir_mag(const std::vector<cd>& c, int64_t k) const {
        long double acc = 0;
        for (int i = 0; i < L; ++i) {
            acc += std::abs(c[size_t(i)]) * std::abs(xat(k - i));
        }
        return acc;
    }

    std::vector<cd> coeffs_now() const {
        const dsplib::base_array<T> c = flt.coeffs();
        std::vector<cd> v(size_t(c.size()));
        for (int i = 0; i < c.size(); ++i) {
            v[size_t(i)] = Traits<T>::up(c[i]);
        }
        return v;
    }

    bool same_bits(const dsplib::base_array<T>& a, const dsplib::base_array<T>& b) const {
        return a.size() == b.size() && (a.size() == 0 || std::memcmp(a.data(), b.data(), size_t(a.size()) * sizeof(T)) == 0);
    }

    std::string cfg() const {
        return fmt("%s<%s> L=%d p1=%.6g p2=%.6g", algo == 0 ? "LMS" : algo == 1 ? "NLMS" : "RLS", Traits<T>::cplx ? "cmplx" : "real", L, p1, p2);
    }

    // one call of process() on n fresh samples
    bool call(int n, bool silent = false) {
        const int64_t k0 = int64_t(x.size());
        dsplib::base_array<T> xa(n);
        dsplib::base_array<T> da(n);
        for (int i = 0; i < n; ++i) {
            cd v = Traits<T>::cplx ? cd(data.normal() * 0.7071067811865476, data.normal() * 0.7071067811865476) : cd(data.normal(), 0);
            if (silent) {
                v = cd(0, 0);   // a pause in the input (x = 0, hence d = 0)
            }
            x.push_back(v);
            xa[i] = Traits<T>::down(v);
        }
        for (int i = 0; i < n; ++i) {
            da[i] = Traits<T>::down(fir(w0, k0 + i, false));
        }
        const std::vector<cd> c_before = coeffs_now();
        if (int(c_before.size()) != L) {
            res.fail("C12:coeffs-length", fmt("%s: coeffs() has %zu entries", cfg().c_str(), c_before.size()));
            return false;
        }
        set_cur_opf("C12 %s process n=%d at k=%lld", cfg().c_str(), n, static_cast<long long>(k0));
        typename F::Result r;
        try {
            if (twin) {
                // the copy first: a copy that shares state with the original would advance the original's tap line
                const typename F::Result r2 = twin->process(xa, da);
                r = flt.process(xa, da);
                if (!same_bits(r2.y, r.y) || !same_bits(r2.e, r.e) || !same_bits(dsplib::base_array<T>(twin->coeffs()), dsplib::base_array<T>(flt.coeffs()))) {
                    res.fail("C12:copy-deviates", fmt("%s: a copy made mid-stream and fed the same calls returns other y / e / coeffs() than the original (call at k=%lld, %d samples)",
                                                      cfg().c_str(), static_cast<long long>(k0), n));
                    return false;
                }
            } else {
                r = flt.process(xa, da);
            }
        } catch (const std::exception& e) {
            res.fail("C12:exception", cfg() + ": process threw: " + e.what());
            return false;
        }
        if (r.y.size() != n || r.e.size() != n) {
            res.fail("C12:length", fmt("%s: process returned %d/%d samples for %d", cfg().c_str(), r.y.size(), r.e.size(), n));
            return false;
        }
        saw_frame = true;
        // O1: e = d - y at every sample
        for (int i = 0; i < n; ++i) {
            const cd y = Traits<T>::up(r.y[i]);
            const cd e = Traits<T>::up(r.e[i]);
            const cd d = Traits<T>::up(da[i]);
            const double tr = 4 * ulp_of(std::max(std::fabs(double(d.real())), std::fabs(double(y.real()))));
            const double ti = 4 * ulp_of(std::max(std::fabs(double(d.imag())), std::fabs(double(y.imag()))));
            const cd want = d - y;
            if (std::isfinite(double(y.real())) && (std::fabs(double((e - want).real())) > tr || std::fabs(double((e - want).imag())) > ti)) {
                res.fail("C12:e-ne-d-minus-y", fmt("%s: sample k=%lld: e=(%.17g,%.17g) but d-y=(%.17g,%.17g)", cfg().c_str(), static_cast<long long>(k0 + i), double(e.real()), double(e.imag()),
                                                   double(want.real()), double(want.imag())));
                return false;
            }
            res.digest.f64(double(y.real()));
            res.digest.f64(double(y.imag()));
        }
        // O2: a-priori output: the first sample of the call is produced by the coefficients held before the call
        // O3: while locked that holds for every sample of the call
        const int ncheck = locked ? n : 1;
        for (int i = 0; i < ncheck; ++i) {
            const cd y = Traits<T>::up(r.y[i]);
            if (!std::isfinite(double(y.real())) || !std::isfinite(double(y.imag()))) {
                continue;
            }
            const cd ya = fir(c_before, k0 + i, false);
            const cd yb = fir(c_before, k0 + i, true);
            const long double tol = 1e-12L * fir_mag(c_before, k0 + i) + 1e-300L;
            const bool oka = std::abs(y - ya) <= tol;
            const bool okb = std::abs(y - yb) <= tol;
            bool ok;
            if (conv == 0) {
                ok = oka || okb;
                if (ok && oka != okb) {
                    conv = oka ? 1 : 2;   // one convention per run
                }
            } else {
                ok = (conv == 1) ? oka : okb;
            }
            if (!ok) {
                res.fail(locked ? "C12:locked-not-fixed-fir" : "C12:not-a-priori",
                         fmt("%s: sample k=%lld (%s, frame of %d, index %d in frame): y=(%.15g,%.15g) but coeffs() held before the call applied to the last L inputs give "
                             "(%.15g,%.15g)",
                             cfg().c_str(), static_cast<long long>(k0 + i), locked ? "locked" : "unlocked", n, i, double(y.real()), double(y.imag()), double(ya.real()),
                             double(ya.imag())));
                return false;
            }
        }
        res.inc(locked ? "probe.locked_samples_checked_as_fir" : "probe.apriori_first_sample_checked", ncheck);
        // O6 (LMS / NLMS, single-sample unlocked calls): the documented coefficient update
        //    c' = leak*c + mu*e*conj(u)          (NLMS: divided by sum|u|^2 + eps)
        // observed through coeffs() before and after the call; u = the last L inputs, newest first.
        if (!locked && n == 1 && algo <= 1 && conv != 2) {
            const std::vector<cd> c_after = coeffs_now();
            const cd e0 = Traits<T>::up(r.e[0]);
            long double pu = 0;
            for (int i = 0; i < L; ++i) {
                pu += std::norm(xat(k0 - i));
            }
            const long double norm = (algo == 1) ? (pu + 2.220446049250313e-16L) : 1.0L;
            long double worst = 0;
            long double scale = 0;
            for (int i = 0; i < L; ++i) {
                const cd want = static_cast<long double>(p2) * c_before[size_t(i)] + static_cast<long double>(p1) * e0 * std::conj(xat(k0 - i)) / norm;
                worst = std::max(worst, std::abs(c_after[size_t(i)] - want));
                scale = std::max(scale, std::abs(want));
            }
            if (std::isfinite(double(scale)) && worst > 1e-10L * (scale + 1e-30L) + 1e-300L) {
                res.fail("C12:update-recursion", fmt("%s: single-sample call at k=%lld: coeffs() after the call differ from leak*c + mu*e*conj(u)%s by %.3e (scale %.3e)", cfg().c_str(),
                                                     static_cast<long long>(k0), algo == 1 ? "/(|u|^2+eps)" : "", double(worst), double(scale)));
                return false;
            }
            res.inc("probe.update_recursion_checked");
        }
        if (locked) {
            if (!same_bits(flt.coeffs(), lock_snapshot)) {
                res.fail("C12:lock-changed-coeffs", fmt("%s: coeffs() changed during a call made while locked (k=%lld, frame of %d)", cfg().c_str(), static_cast<long long>(k0), n));
                return false;
            }
        } else {
            unlocked_samples += n;
            if (track_ls && unlocked_samples <= 200) {
                // weights lambda^(N-1-j) over unlocked samples: scale the accumulated system by lambda per unlocked sample
                for (int i = 0; i < n; ++i) {
                    for (auto& v : lsA) {
                        v *= p1;
                    }
                    for (auto& v : lsb) {
                        v *= p1;
                    }
                    const long double d = Traits<T>::up(da[i]).real();
                    for (int a = 0; a < L; ++a) {
                        const long double ua = xat(k0 + i - a).real();
                        lsb[size_t(a)] += ua * d;
                        for (int b = 0; b < L; ++b) {
                            lsA[size_t(a * L + b)] += ua * xat(k0 + i - b).real();
                        }
                    }
                }
            }
        }
        res.inc("sim.samples", n);
        res.inc("fault.segment");
        res.inc("probe.single_sample_frame", n == 1);
        return true;
    }

    // a call the filter must refuse (input and desired signal of different lengths): afterwards coeffs() and every later
    // y / e must be exactly what they would have been without it (the a-priori relation is over the ACCEPTED samples)
    bool rejected_call(uint32_t seed) {
        Rng rr(mix(seed, 0x4E1));
        const int n1 = int(rr.range(1, 2 * L + 3));
        const int n2 = n1 + int(rr.range(1, 3)) * (rr.chance(0.5) || n1 <= 3 ? 1 : -1);
        dsplib::base_array<T> xa(n1);
        dsplib::base_array<T> da(std::max(n2, 0));
        for (int i = 0; i < n1; ++i) {
            xa[i] = Traits<T>::down(Traits<T>::cplx ? cd(rr.normal(), rr.normal()) : cd(rr.normal() * 3, 0));
        }
        for (int i = 0; i < da.size(); ++i) {
            da[i] = Traits<T>::down(cd(rr.normal(), 0));
        }
        const dsplib::base_array<T> before(flt.coeffs());
        set_cur_opf("C12 %s process with mismatched lengths %d / %d", cfg().c_str(), n1, int(da.size()));
        bool threw = false;
        try {
            (void)flt.process(xa, da);
        } catch (const std::exception&) {
            threw = true;
        }
        if (twin) {
            try {
                (void)twin->process(xa, da);
            } catch (const std::exception&) {
            }
        }
        if (!threw) {
            res.fail("C12:mismatched-call-accepted", fmt("%s: process(x[%d], d[%d]) returned instead of rejecting the call", cfg().c_str(), n1, int(da.size())));
            return false;
        }
        if (!same_bits(before, dsplib::base_array<T>(flt.coeffs()))) {
            res.fail("C12:rejected-call-changed-coeffs", fmt("%s: coeffs() changed by a call that was rejected (x[%d], d[%d])", cfg().c_str(), n1, int(da.size())));
            return false;
        }
        res.inc("fault.rejected_call_mid_stream");
        return true;
    }

    void make_copy() {
        twin = std::make_unique<F>(flt);
        res.inc("fault.copied_mid_stream");
    }

    void set_lock(bool l) {
        if (twin) {
            twin->set_lock_coeffs(l);
        }
        if (l == locked) {
            flt.set_lock_coeffs(l);
            return;
        }
        flt.set_lock_coeffs(l);
        locked = l;
        if (l) {
            lock_snapshot = flt.coeffs();
        }
        last_event_at = int64_t(x.size());
        res.inc(l ? "fault.lock_event" : "fault.unlock_event");
        if (saw_frame) {
            ++lock_toggles_inside;
        }
    }

    double misalignment() const {
        const std::vector<cd> c = coeffs_now();
        long double num = 0;
        long double den = 0;
        for (int i = 0; i < L; ++i) {
            const cd t = (conv == 2) ? std::conj(w0[size_t(i)]) : w0[size_t(i)];
            num += std::norm(c[size_t(i)] - t);
            den += std::norm(t);
        }
        return double(num / den);
    }

    // O5: real RLS equals the exponentially weighted, diagonally regularised least-squares solution (unlocked samples)
    void check_ls() {
        if (!track_ls || unlocked_samples < 1 || unlocked_samples > 200) {
            return;
        }
        const int n = L;
        std::vector<long double> A = lsA;
        std::vector<long double> b = lsb;
        const long double reg = std::pow(static_cast<long double>(p1), static_cast<long double>(unlocked_samples)) / static_cast<long double>(p2);
        for (int i = 0; i < n; ++i) {
            A[size_t(i * n + i)] += reg;
        }
        // Gaussian elimination with partial pivoting
        for (int c = 0; c < n; ++c) {
            int piv = c;
            for (int r2 = c + 1; r2 < n; ++r2) {
                if (std::fabs(A[size_t(r2 * n + c)]) > std::fabs(A[size_t(piv * n + c)])) {
                    piv = r2;
                }
            }
            if (std::fabs(A[size_t(piv * n + c)]) < 1e-300L) {
                return;
            }
            for (int k = 0; k < n; ++k) {
                std::swap(A[size_t(c * n + k)], A[size_t(piv * n + k)]);
            }
            std::swap(b[size_t(c)], b[size_t(piv)]);
            for (int r2 = c + 1; r2 < n; ++r2) {
                const long double f = A[size_t(r2 * n + c)] / A[size_t(c * n + c)];
                for (int k = c; k < n; ++k) {
                    A[size_t(r2 * n + k)] -= f * A[size_t(c * n + k)];
                }
                b[size_t(r2)] -= f * b[size_t(c)];
            }
        }
        std::vector<long double> w(size_t(n), 0.0L);
        for (int r2 = n - 1; r2 >= 0; --r2) {
            long double s = b[size_t(r2)];
            for (int k = r2 + 1; k < n; ++k) {
                s -= A[size_t(r2 * n + k)] * w[size_t(k)];
            }
            w[size_t(r2)] = s / A[size_t(r2 * n + r2)];
        }
        const std::vector<cd> c = coeffs_now();
        long double num = 0;
        long double den = 0;
        for (int i = 0; i < n; ++i) {
            num += (c[size_t(i)].real() - w[size_t(i)]) * (c[size_t(i)].real() - w[size_t(i)]);
            den += w[size_t(i)] * w[size_t(i)];
        }
        const double rel = double(std::sqrt(num / (den > 0 ? den : 1)));
        if (rel > 1e-7) {
            res.fail("C12:rls-ne-least-squares", fmt("%s: after %lld unlocked samples coeffs() differ from the regularised least-squares solution by %.3e (relative l2)", cfg().c_str(),
                                                     static_cast<long long>(unlocked_samples), rel));
            return;
        }
        res.inc("probe.rls_least_squares_checked");
    }

    // bound (samples after the last event) within which the misalignment must fall below 1e-6; 0: not applicable
    int64_t settle_bound() const {
        if (algo == 1) {
            if (p2 != 1.0) {
                return 0;
            }
            return int64_t(5 * 14.0 * L / (p1 * (2 - p1))) + 200;
        }
        if (algo == 2) {
            const double lam = p1;
            const double delta = p2;
            for (int64_t n = 1; n <= 4000000; n = n + 1 + n / 64) {
                const double rho = std::pow(lam, double(n)) / delta;
                const double R = (lam >= 1.0) ? double(n) : (1 - std::pow(lam, double(n))) / (1 - lam);
                if (rho / R < 3e-4) {
                    return 2 * n + 10 * L;
                }
            }
            return -1;
        }
        return 0;
    }
};

template<class R>
void drive(R& rn, const Plan& pl, Result& res) {
    for (size_t oi = 1; oi < pl.ops.size(); ++oi) {
        const Op& op = pl.ops[oi];
        if (op.kind == "frame") {
            const int64_t n = op.iarg(0);
            if (n < 1 || n > 2000000) {
                res.invalid = true;
                return;
            }
            rn.pattern += "F";
            if (!rn.call(int(n))) {
                return;
            }
        } else if (op.kind == "ones") {
            const int64_t n = op.iarg(0);
            if (n < 1 || n > 200000) {
                res.invalid = true;
                return;
            }
            rn.pattern += "O";
            for (int64_t i = 0; i < n; ++i) {
                if (!rn.call(1)) {
                    return;
                }
            }
        } else if (op.kind == "reject") {
            rn.pattern += "R";
            if (!rn.rejected_call(uint32_t(op.iarg(0)))) {
                return;
            }
        } else if (op.kind == "copy") {
            rn.pattern += "C";
            rn.make_copy();
        } else if (op.kind == "pause") {
            const int64_t n = op.iarg(0);
            if (n < 1 || n > 100000) {
                res.invalid = true;
                return;
            }
            rn.pattern += "P";
            rn.last_event_at = int64_t(rn.x.size()) + n;   // a pause is an environment event: the liveness clock restarts after it
            if (!rn.call(int(n), true)) {
                return;
            }
            res.inc("fault.input_pause");
        } else if (op.kind == "lock") {
            rn.pattern += "L";
            rn.set_lock(true);
        } else if (op.kind == "unlock") {
            rn.pattern += "U";
            rn.set_lock(false);
        } else if (op.kind == "settle") {
            const int64_t n = op.iarg(0);
            if (n < 1 || n > 5000000) {
                res.invalid = true;
                return;
            }
            rn.pattern += "S";
            rn.check_ls();
            if (!res.ok) {
                return;
            }
            const auto frames = make_framing(FS_HEAVY, uint32_t(op.iarg(1)), n, 0, rn.L, rn.L);
            for (int fr : frames) {
                if (!rn.call(fr)) {
                    return;
                }
            }
            const int64_t bound = rn.settle_bound();
            const int64_t since = int64_t(rn.x.size()) - rn.last_event_at;
            if (!rn.locked && bound > 0 && since >= bound) {
                const double mis = rn.misalignment();
                if (!(mis < 1e-6)) {
                    res.fail("C12:not-converged", fmt("%s: %lld samples after the last lock/unlock event (bound %lld) the normalised misalignment is %.3e (white input, noise-free "
                                                      "system of length <= L)",
                                                      rn.cfg().c_str(), static_cast<long long>(since), static_cast<long long>(bound), mis));
                    return;
                }
                res.inc("probe.convergence_checked");
            } else {
                res.inc("probe.convergence_not_applicable");
            }
        } else {
            res.invalid = true;
            return;
        }
    }
    rn.check_ls();
    res.inc("probe.lock_toggle_inside_stream", rn.lock_toggles_inside > 0);
    Hash h;
    h.u64(uint64_t(rn.algo));
    h.u64(uint64_t(R_is_cplx(rn)));
    h.str(rn.pattern);
    if (rn.lock_toggles_inside > 0) {
        res.sigs.push_back(h.h);
    }
}

template<class T, class F>
bool R_is_cplx(const Runner<T, F>&) {
    return Traits<T>::cplx;
}

Plan gen(uint64_t seed, const std::string& tier) {
    Rng r(mix(seed, 0xC12));
    const bool big = (tier == "thorough");
    Plan pl;
    pl.engine = "C12";
    pl.seed = seed;
    pl.tier = tier;
    const int algo = int(r.below(3));
    const int cplx = r.chance(0.4) ? 1 : 0;
    const int L = (algo == 2) ? int(r.range(2, big ? 32 : 12)) : int(r.range(2, big ? 64 : 32));
    double p1, p2;
    const int64_t cap = big ? 300000 : 12000;
    if (algo == 0) {
        p1 = r.real(0.02, 0.2) / L;
        p2 = r.chance(0.6) ? 1.0 : r.real(0.99, 1.0);
    } else if (algo == 1) {
        p1 = r.real(0.2, 1.0);
        p2 = r.chance(0.7) ? 1.0 : r.real(0.99, 1.0);
        while (5 * 14.0 * L / (p1 * (2 - p1)) + 200 > double(cap) && p1 < 1.0) {
            p1 = std::min(1.0, p1 * 1.3);
        }
    } else {
        p1 = r.chance(0.35) ? 1.0 : r.real(0.9, 1.0);
        p2 = r.logu(1e-2, 1e4);
        if (p1 >= 1.0) {
            // lambda = 1: the regulariser 1/delta only decays as 1/n; give delta the size the simulated time allows
            const double need = 1.0 / (3e-4 * double(cap) / 2.5);
            if (p2 < need) {
                p2 = r.logu(need, 1e4);
            }
        }
    }
    Op f;
    f.kind = "flt";
    f.a = {double(algo), double(cplx), double(L), p1, p2, double(r.seed32()), double(r.range(1, L)), double(r.seed32())};
    pl.ops.push_back(f);
    const int nev = int(r.range(1, 10));
    bool locked = false;
    for (int i = 0; i < nev; ++i) {
        const int c = int(r.below(10));
        Op op;
        if (c == 4 && r.chance(0.3)) {
            op.kind = "reject";
            op.a = {double(r.seed32())};
        } else if (c == 5 && r.chance(0.4)) {
            op.kind = "copy";
        } else if (c < 3) {
            op.kind = "ones";
            op.a = {double(r.logi(1, 60))};
        } else if (c < 6) {
            op.kind = "frame";
            op.a = {double(r.logi(1, (algo == 2) ? 300 : 1500))};
        } else if (c == 6 && r.chance(0.5)) {
            op.kind = "pause";
            op.a = {double(r.logi(1, 3 * L))};
        } else if (c < 8) {
            op.kind = locked ? "unlock" : "lock";
            locked = !locked;
        } else if (c == 8) {
            op.kind = "lock";
            locked = true;
        } else {
            op.kind = "unlock";
            locked = false;
        }
        pl.ops.push_back(op);
    }
    if (locked && r.chance(0.8)) {
        Op u;
        u.kind = "unlock";
        pl.ops.push_back(u);
        locked = false;
    }
    // final phase: enough simulated time for the liveness bound (computed from the parameters, not guessed)
    int64_t bound = 0;
    if (algo == 1 && p2 == 1.0) {
        bound = int64_t(5 * 14.0 * L / (p1 * (2 - p1))) + 200;
    } else if (algo == 2) {
        for (int64_t n = 1; n <= 4000000; n = n + 1 + n / 64) {
            const double rho = std::pow(p1, double(n)) / p2;
            const double R = (p1 >= 1.0) ? double(n) : (1 - std::pow(p1, double(n))) / (1 - p1);
            if (rho / R < 3e-4) {
                bound = 2 * n + 10 * L;
                break;
            }
        }
    }
    Op s;
    s.kind = "settle";
    const int64_t n = (bound > 0 && bound <= cap && !locked) ? bound + r.range(0, 50) : r.logi(10, 500);
    s.a = {double(n), double(r.seed32())};
    pl.ops.push_back(s);
    return pl;
}

Result exec(const Plan& pl) {
    Result res;
    if (pl.ops.empty() || pl.ops[0].kind != "flt" || pl.ops[0].a.size() < 8) {
        res.invalid = true;
        return res;
    }
    const Op& f = pl.ops[0];
    const int algo = int(f.iarg(0));
    const bool cplx = f.iarg(1) != 0;
    const int L = int(f.iarg(2));
    const double p1 = f.arg(3);
    const double p2 = f.arg(4);
    const uint32_t wseed = uint32_t(f.iarg(5));
    const int wlen = int(f.iarg(6));
    const uint32_t dseed = uint32_t(f.iarg(7));
    bool ok = (algo >= 0 && algo <= 2 && L >= 2 && L <= 128 && wlen >= 1);
    if (algo == 2) {
        ok = ok && p1 >= 0.5 && p1 <= 1.0 && p2 >= 1e-6 && p2 <= 1e8;
    } else {
        ok = ok && p1 > 0 && p1 <= 1.0 && p2 > 0.5 && p2 <= 1.0;
    }
    if (!ok) {
        res.invalid = true;
        return res;
    }
    // edge budget for this run: proportional to the documented cost of the whole history (O(L^2) per sample for RLS, O(L) for
    // LMS/NLMS, plus the harness's own per-sample reference arithmetic), instead of the per-thread default, which long
    // thorough-tier RLS histories (1e5 samples at L = 32) legitimately exceed
    {
        long double total = 0;
        for (size_t i = 1; i < pl.ops.size(); ++i) {
            const std::string& k = pl.ops[i].kind;
            if (k == "frame" || k == "ones" || k == "pause" || k == "settle") {
                total += std::max<long double>(0, static_cast<long double>(pl.ops[i].arg(0)));
            }
        }
        const long double per_sample = (algo == 2) ? 2000.0L * L * L : 20000.0L * L;
        const long double want = 4e9L + total * (per_sample + 50000.0L);
        sim::set_edge_budget(sim::edges_now() + uint64_t(std::min<long double>(want, 4e15L)));
    }
    const auto method = (algo == 1) ? dsplib::LmsType::NLMS : dsplib::LmsType::LMS;
    if (algo == 2) {
        if (cplx) {
            Runner<cmplx_t, dsplib::RlsFilter<cmplx_t>> rn(algo, L, p1, p2, wseed, wlen, dseed, res, p1, p2);
            drive(rn, pl, res);
        } else {
            Runner<real_t, dsplib::RlsFilter<real_t>> rn(algo, L, p1, p2, wseed, wlen, dseed, res, p1, p2);
            drive(rn, pl, res);
        }
    } else {
        if (cplx) {
            Runner<cmplx_t, dsplib::LmsFilter<cmplx_t>> rn(algo, L, p1, p2, wseed, wlen, dseed, res, p1, method, p2);
            drive(rn, pl, res);
        } else {
            Runner<real_t, dsplib::LmsFilter<real_t>> rn(algo, L, p1, p2, wseed, wlen, dseed, res, p1, method, p2);
            drive(rn, pl, res);
        }
    }
    if (res.invalid) {
        res.ok = true;
        res.vclass.clear();
    }
    std::string pat;
    for (size_t i = 1; i < pl.ops.size(); ++i) {
        pat += pl.ops[i].kind.substr(0, 1);
        if (!pl.ops[i].a.empty()) {
            pat += fmt("%lld", static_cast<long long>(pl.ops[i].iarg(0)));
        }
        pat += " ";
    }
    res.sample = fmt("%s %s L=%d p1=%.5g p2=%.5g history: %s", algo == 0 ? "LMS" : algo == 1 ? "NLMS" : "RLS", cplx ? "complex" : "real", L, p1, p2, pat.c_str());
    return res;
}

EngineReg reg({"C12", gen, exec, "adaptive filters: a-priori identity, lock events on the sample clock, convergence within bounded time"});

}   // namespace
}   // namespace vf
