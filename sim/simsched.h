// Deterministic scheduler for simulated threads (real OS threads, exactly one runnable).
// The implementation (sched.cpp) is compiled WITHOUT sanitizers and without coverage
// instrumentation: its hand-off uses raw futex words, so ThreadSanitizer sees no
// happens-before edge from the scheduler and reports every unsynchronised conflicting
// access of the serialised threads, independent of timing.
#pragma once
#include <cstdint>
#include <cstddef>

namespace sim {

enum Policy : int {
    POL_OPBOUND = 0,   // switch only at op boundaries
    POL_UNIFORM = 1,   // switch at basic-block edges with probability p
    POL_PCT = 2,       // priority schedule with d change points
    POL_STALL = 3,     // uniform, plus one thread starved for a stretch
    POL_REPLAY = 4,    // explicit list of (yield index, thread)
};

struct Switch {
    uint64_t idx;   // global yield index at which the switch is taken
    int32_t thr;    // thread that receives the token
};

struct Config {
    int nthreads = 1;
    int policy = POL_OPBOUND;
    uint64_t seed = 1;
    double p_edge = 0;         // POL_UNIFORM / POL_STALL: per-edge switch probability
    double p_op = 0.5;         // probability of a switch at an op boundary
    int pct_d = 0;             // POL_PCT: number of priority change points
    uint64_t pct_span = 0;     // POL_PCT: yield-index span in which change points are placed
    int stall_thr = -1;        // POL_STALL
    uint64_t stall_from = 0;   // yield index window in which stall_thr is never chosen
    uint64_t stall_len = 0;
    const Switch* replay = nullptr;   // POL_REPLAY
    size_t nreplay = 0;
    int start_after[32];   // thread i becomes runnable when thread start_after[i] is done (-1: at start)
    Config() {
        for (int& v : start_after) {
            v = -1;
        }
    }
};

struct Stats {
    uint64_t yields = 0;        // yield points passed (edges + op boundaries + sync)
    uint64_t edges = 0;         // basic-block edges executed by simulated threads
    uint64_t switches = 0;      // token hand-offs taken
    uint64_t edge_switches = 0; // ... of which at a basic-block edge (preemptions)
    uint64_t lock_blocked = 0;  // wrapped lock found busy -> forced switch
    uint64_t guard_sections = 0;// guarded static initialisations made non-preemptible
    uint64_t stall_skips = 0;   // switches redirected because the target was being starved
    uint64_t sched_hash = 0;    // hash of the taken switch list
    int deadlock = 0;
};

constexpr int MAX_THREADS = 32;

// --- controller side (call from the thread that owns the run) ---
void begin(const Config& cfg);          // arm the scheduler; threads may then be created
void run_all();                         // release the first thread, block until all are done
const Stats& stats();
size_t taken_switches(const Switch** out);   // explicit schedule of the finished run

// --- simulated-thread side ---
void thread_enter(int id);   // first call in a simulated thread: parks until scheduled
                             // (the token is handed on when the thread's thread_local objects have been destroyed)
void op_boundary();          // yield point between two ops
bool in_sim();
int self();

// --- edge clock (works in any thread, simulated or not) ---
uint64_t edges_now();                       // edges executed by the calling thread so far
void set_edge_budget(uint64_t abs_limit);   // calling thread: abort the process when its edge count passes this
void clear_edge_budget();
extern "C" void sim_budget_exceeded();      // provided by the harness (never returns)

}   // namespace sim
