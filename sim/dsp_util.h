// Signal generation, stream framing (the simulated transport) and tolerant comparison.
#pragma once
#include "common.h"

#include <dsplib.h>
// include what is used: the harness must not depend on which public header happens to include which
#include <dsplib/agc.h>
#include <dsplib/array.h>
#include <dsplib/audio/compressor.h>
#include <dsplib/audio/limiter.h>
#include <dsplib/audio/noise-gate.h>
#include <dsplib/awgn.h>
#include <dsplib/czt.h>
#include <dsplib/delay.h>
#include <dsplib/detector.h>
#include <dsplib/fft.h>
#include <dsplib/fir.h>
#include <dsplib/hilbert.h>
#include <dsplib/ifft.h>
#include <dsplib/lms.h>
#include <dsplib/math.h>
#include <dsplib/medfilt.h>
#include <dsplib/random.h>
#include <dsplib/resample.h>
#include <dsplib/rls.h>
#include <dsplib/snr.h>
#include <dsplib/spectrum.h>
#include <dsplib/stft.h>
#include <dsplib/tuner.h>
#include <dsplib/utils.h>
#include <dsplib/window.h>
#include <dsplib/xcorr.h>

namespace vf {

using dsplib::arr_cmplx;
using dsplib::arr_real;
using dsplib::cmplx_t;
using dsplib::real_t;

//---------------------------------------------------------------------------------------------
// stream contents from a seed: gaussian, impulsive, steps, silence gaps, mixtures
inline std::vector<double> gen_signal(uint32_t seed, size_t n, double scale = 1.0) {
    Rng r(mix(seed, 0x5161));
    std::vector<double> x(n);
    const int type = int(r.below(8));
    switch (type) {
    case 0:   // white gaussian
        for (auto& v : x) {
            v = r.normal();
        }
        break;
    case 1: {   // sparse impulses
        const double p = r.logu(1e-3, 0.3);
        for (auto& v : x) {
            v = r.chance(p) ? r.normal() * 5 : 0.0;
        }
        break;
    }
    case 2: {   // steps
        double lvl = r.normal();
        const double p = r.logu(1e-3, 0.2);
        for (auto& v : x) {
            if (r.chance(p)) {
                lvl = r.normal() * 2;
            }
            v = lvl;
        }
        break;
    }
    case 3: {   // bursts separated by silence
        bool on = true;
        const double p = r.logu(1e-3, 0.1);
        for (auto& v : x) {
            if (r.chance(p)) {
                on = !on;
            }
            v = on ? r.normal() : 0.0;
        }
        break;
    }
    case 4: {   // tone + noise
        const double f = r.real(0.001, 0.49);
        const double ph = r.real(0, 6.28);
        const double na = r.logu(1e-4, 1);
        for (size_t i = 0; i < n; ++i) {
            x[i] = std::sin(6.283185307179586 * f * double(i) + ph) + na * r.normal();
        }
        break;
    }
    case 7: {   // a short pattern repeated over and over: whole frames recur exactly (sample-identical consecutive calls)
        const size_t period = size_t(r.chance(0.5) ? (1u << r.below(7)) : r.range(1, 96));
        std::vector<double> pat(period);
        for (auto& v : pat) {
            v = r.chance(0.2) ? 0.0 : r.normal();
        }
        for (size_t i = 0; i < n; ++i) {
            x[i] = pat[i % period];
        }
        break;
    }
    case 6: {   // ordinary-level noise with rare bursts 120 dB hotter (large dynamic range inside one stream)
        const double p = r.logu(1e-4, 1e-2);
        int hot = 0;
        for (auto& v : x) {
            if (hot == 0 && r.chance(p)) {
                hot = int(r.range(1, 8));
            }
            v = r.normal() * (hot > 0 ? 1e6 : 1.0);
            hot -= (hot > 0);
        }
        break;
    }
    default: {   // gaussian with slowly varying level over 60 dB
        double g = 1;
        for (auto& v : x) {
            if (r.chance(0.01)) {
                g = r.logu(1e-3, 1);
            }
            v = g * r.normal();
        }
        break;
    }
    }
    for (auto& v : x) {
        v *= scale;
    }
    return x;
}

inline arr_real to_arr(const double* p, size_t n) {
    arr_real a(static_cast<int>(n));
    for (size_t i = 0; i < n; ++i) {
        a[int(i)] = p[i];
    }
    return a;
}

inline arr_real to_arr(const std::vector<double>& v) {
    return to_arr(v.data(), v.size());
}

// interleaved re,im -> arr_cmplx of n samples
inline arr_cmplx to_carr(const double* p, size_t n) {
    arr_cmplx a(static_cast<int>(n));
    for (size_t i = 0; i < n; ++i) {
        a[int(i)].re = p[2 * i];
        a[int(i)].im = p[2 * i + 1];
    }
    return a;
}

inline void append(std::vector<double>& dst, const arr_real& a) {
    for (int i = 0; i < a.size(); ++i) {
        dst.push_back(a[i]);
    }
}

inline void append(std::vector<double>& dst, const arr_cmplx& a) {
    for (int i = 0; i < a.size(); ++i) {
        dst.push_back(a[i].re);
        dst.push_back(a[i].im);
    }
}

inline arr_real rand_coeffs(uint32_t seed, int n) {
    Rng r(mix(seed, 0xC0EF));
    arr_real h(n);
    const int shape = int(r.below(3));
    for (int i = 0; i < n; ++i) {
        const double w = (shape == 0) ? 1.0 : (shape == 1) ? std::exp(-3.0 * i / n) : (0.5 - 0.5 * std::cos(6.283185307179586 * (i + 0.5) / n));
        h[i] = r.normal() * w;
    }
    if (std::fabs(h[0]) < 1e-3) {
        h[0] = 0.5;
    }
    return h;
}

inline arr_cmplx rand_ccoeffs(uint32_t seed, int n) {
    const arr_real a = rand_coeffs(seed, n);
    const arr_real b = rand_coeffs(seed ^ 0x9e37u, n);
    arr_cmplx h(n);
    for (int i = 0; i < n; ++i) {
        h[i].re = a[i];
        h[i].im = b[i];
    }
    return h;
}

//---------------------------------------------------------------------------------------------
// The simulated transport: cuts a stream of `n` granules into consecutive non-empty frames.
enum FrameStyle : int {
    FS_ONESHOT = 0,
    FS_ONES = 1,
    FS_FIXED = 2,      // all frames fparam granules (last one shorter)
    FS_HEAVY = 3,      // heavy-tailed random sizes 1..4096
    FS_NEARMEM = 4,    // sizes around the processor's memory / block size (mem in fparam, block in fparam2)
    FS_SPLIT2 = 5,     // two frames, cut after fparam granules
    FS_BITMASK = 6,    // composition of a short stream: bit i of fparam set = cut after granule i+1
    FS_ALLMASKS = 7,   // every composition of a short stream (all 2^(n-1) framings), each on a fresh instance
};

inline std::vector<int> make_framing(int style, uint32_t fseed, int64_t n, int64_t fparam, int64_t mem, int64_t block) {
    std::vector<int> fr;
    if (n <= 0) {
        return fr;
    }
    Rng r(mix(fseed, 0xF4A3));
    int64_t left = n;
    auto push = [&](int64_t k) {
        k = (k < 1) ? 1 : k;
        k = (k > left) ? left : k;
        fr.push_back(int(k));
        left -= k;
    };
    switch (style) {
    case FS_ONES:
        while (left > 0) {
            push(1);
        }
        break;
    case FS_FIXED:
        while (left > 0) {
            push(fparam);
        }
        break;
    case FS_HEAVY:
        while (left > 0) {
            push(r.logi(1, 4096));
        }
        break;
    case FS_NEARMEM:
        while (left > 0) {
            const int c = int(r.below(10));
            const int64_t m = (mem < 1) ? 1 : mem;
            const int64_t b = (block < 1) ? m : block;
            const int64_t k = (c == 0) ? 1 : (c == 1) ? m - 1 : (c == 2) ? m : (c == 3) ? m + 1 : (c == 4) ? b - 1 : (c == 5) ? b : (c == 6) ? b + 1
                              : (c == 7) ? 2 * b + 1 : (c == 8) ? r.range(1, m) : r.logi(1, 4 * (m + b));
            push(k);
        }
        break;
    case FS_SPLIT2:
        push(fparam);
        if (left > 0) {
            push(left);
        }
        break;
    case FS_BITMASK: {
        int64_t run = 0;
        for (int64_t i = 0; i < n; ++i) {
            ++run;
            const bool cut = (i == n - 1) || ((i < 62) && ((uint64_t(fparam) >> i) & 1u));
            if (cut) {
                push(run);
                run = 0;
            }
        }
        break;
    }
    default:
        push(left);
        break;
    }
    return fr;
}

//---------------------------------------------------------------------------------------------
// tolerant comparison of two channel streams; NaN/Inf at the same place on both sides is equal
struct Cmp {
    bool ok{true};
    size_t at{0};
    double a{0};
    double b{0};
    double scale{1};
    std::string what;
};

// Same, but the tolerance follows the LOCAL level of the reference: rel_tol x max |ref| over the last `window` elements
// (never below 1e-6 of the global scale). A deviation that is small against a loud burst elsewhere in the stream but large
// against the signal around it is a deviation. Rounding-level differences of a correct re-implementation after a burst of
// 120 dB are ~1e-16 x 1e6 = 1e-10 of the local level, still below rel_tol = 1e-9.
inline Cmp compare_stream_local(const std::vector<double>& got, const std::vector<double>& ref, double rel_tol, size_t window) {
    Cmp c;
    if (got.size() != ref.size()) {
        c.ok = false;
        c.what = fmt("length %zu != reference %zu", got.size(), ref.size());
        return c;
    }
    double gscale = 0;
    for (double v : ref) {
        if (std::isfinite(v) && std::fabs(v) > gscale) {
            gscale = std::fabs(v);
        }
    }
    if (gscale == 0) {
        gscale = 1;
    }
    c.scale = gscale;
    window = std::max<size_t>(window, 16);
    // sliding maximum by blocks: local scale of element i = max over blocks [b-1, b] with block length `window`
    const size_t nb = ref.size() / window + 1;
    std::vector<double> bmax(nb, 0.0);
    for (size_t i = 0; i < ref.size(); ++i) {
        if (std::isfinite(ref[i])) {
            bmax[i / window] = std::max(bmax[i / window], std::fabs(ref[i]));
        }
    }
    for (size_t i = 0; i < ref.size(); ++i) {
        const double x = got[i];
        const double y = ref[i];
        if (!std::isfinite(x) || !std::isfinite(y)) {
            const bool same = (std::isnan(x) && std::isnan(y)) || (x == y);
            if (!same) {
                c.ok = false;
                c.at = i;
                c.what = "non-finite mismatch";
                return c;
            }
            continue;
        }
        const size_t b = i / window;
        double local = bmax[b];
        if (b > 0) {
            local = std::max(local, bmax[b - 1]);
        }
        local = std::max(local, 1e-6 * gscale);
        if (std::fabs(x - y) > rel_tol * local) {
            c.ok = false;
            c.at = i;
            c.a = x;
            c.b = y;
            c.what = fmt("value %.17g != reference %.17g (local scale %.3g, global %.3g)", x, y, local, gscale);
            return c;
        }
    }
    return c;
}

inline Cmp compare_stream(const std::vector<double>& got, const std::vector<double>& ref, double rel_tol) {
    Cmp c;
    if (got.size() != ref.size()) {
        c.ok = false;
        c.what = fmt("length %zu != reference %zu", got.size(), ref.size());
        return c;
    }
    double scale = 0;
    for (double v : ref) {
        if (std::isfinite(v) && std::fabs(v) > scale) {
            scale = std::fabs(v);
        }
    }
    if (scale == 0) {
        scale = 1;
    }
    c.scale = scale;
    for (size_t i = 0; i < ref.size(); ++i) {
        const double x = got[i];
        const double y = ref[i];
        if (!std::isfinite(x) || !std::isfinite(y)) {
            const bool same = (std::isnan(x) && std::isnan(y)) || (x == y);
            if (!same) {
                c.ok = false;
                c.at = i;
                c.a = x;
                c.b = y;
                c.what = "non-finite mismatch";
                return c;
            }
            continue;
        }
        if (std::fabs(x - y) > rel_tol * scale) {
            c.ok = false;
            c.at = i;
            c.a = x;
            c.b = y;
            c.what = fmt("value %.17g != reference %.17g (scale %.3g)", x, y, scale);
            return c;
        }
    }
    return c;
}

}   // namespace vf
