#include "simio.h"

#include <cerrno>
#include <cstdio>
#include <cstring>
#include <map>
#include <set>

namespace simio {
namespace {

struct SimFile {
    FilePlan plan;
    int64_t pos{0};
    bool eof{false};
    bool err{false};
    bool transient_done{false};
};

std::map<std::string, FilePlan> g_table;
std::set<SimFile*> g_open;
Counters g_ctr;

SimFile* ours(FILE* f) {
    auto* s = reinterpret_cast<SimFile*>(f);
    return g_open.count(s) ? s : nullptr;
}

}   // namespace

void install(const std::string& path, const FilePlan& plan) {
    g_table[path] = plan;
}

void clear() {
    g_table.clear();
    for (auto* s : g_open) {
        delete s;
    }
    g_open.clear();
    g_ctr = Counters{};
}

Counters counters() {
    return g_ctr;
}

int open_handles() {
    return int(g_open.size());
}

}   // namespace simio

extern "C" {

FILE* __real_fopen(const char* path, const char* mode);
int __real_fseek(FILE* f, long off, int whence);
size_t __real_fread(void* p, size_t size, size_t n, FILE* f);
int __real_feof(FILE* f);
int __real_fclose(FILE* f);

FILE* __wrap_fopen(const char* path, const char* mode) {
    using namespace simio;
    if (strncmp(path, "/simfs/", 7) != 0) {
        return __real_fopen(path, mode);
    }
    ++g_ctr.opens;
    auto it = g_table.find(path);
    if (it == g_table.end() || it->second.open_fails) {
        ++g_ctr.open_failures;
        errno = (it == g_table.end()) ? ENOENT : EACCES;
        return nullptr;
    }
    auto* s = new SimFile;
    s->plan = it->second;
    g_open.insert(s);
    return reinterpret_cast<FILE*>(s);
}

int __wrap_fseek(FILE* f, long off, int whence) {
    using namespace simio;
    SimFile* s = ours(f);
    if (!s) {
        return __real_fseek(f, off, whence);
    }
    ++g_ctr.seeks;
    int64_t base = (whence == SEEK_SET) ? 0 : (whence == SEEK_CUR) ? s->pos : int64_t(s->plan.data.size());
    if (s->plan.seek_fails || s->plan.is_directory || base + off < 0) {
        ++g_ctr.seek_failures;
        errno = EINVAL;
        return -1;
    }
    s->pos = base + off;   // seeking past the end is allowed, as on a real file
    s->eof = false;
    return 0;
}

size_t __wrap_fread(void* p, size_t size, size_t n, FILE* f) {
    using namespace simio;
    SimFile* s = ours(f);
    if (!s) {
        return __real_fread(p, size, n, f);
    }
    ++g_ctr.reads;
    if (s->plan.is_directory || (s->plan.hard_error_at >= 0 && s->pos >= s->plan.hard_error_at)) {
        s->err = true;
        ++g_ctr.read_errors;
        errno = s->plan.is_directory ? EISDIR : EIO;
        return 0;
    }
    if (s->plan.transient_error_at >= 0 && !s->transient_done && s->pos >= s->plan.transient_error_at) {
        s->transient_done = true;
        ++g_ctr.transient_errors;
        errno = EINTR;
        return 0;
    }
    const int64_t total = int64_t(s->plan.data.size());
    size_t done = 0;
    auto* out = static_cast<unsigned char*>(p);
    for (size_t k = 0; k < n; ++k) {
        if (s->pos + int64_t(size) <= total) {
            memcpy(out + k * size, s->plan.data.data() + s->pos, size);
            s->pos += int64_t(size);
            ++done;
        } else {
            if (s->pos < total) {
                ++g_ctr.short_reads;   // EOF inside an element: the partial element is consumed
                s->pos = total;
            }
            s->eof = true;
            ++g_ctr.eof_hits;
            break;
        }
    }
    return done;
}

int __wrap_feof(FILE* f) {
    using namespace simio;
    SimFile* s = ours(f);
    if (!s) {
        return __real_feof(f);
    }
    return s->eof ? 1 : 0;
}

int __wrap_fclose(FILE* f) {
    using namespace simio;
    SimFile* s = ours(f);
    if (!s) {
        return __real_fclose(f);
    }
    ++g_ctr.closes;
    g_open.erase(s);
    delete s;
    return 0;
}

}   // extern "C"
