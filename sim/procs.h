// Uniform adapters over every stateful block processor of dsplib (used by the stream transport).
#pragma once
#include "dsp_util.h"

#include "ma-filter.h"   // lib/ma-filter.h (internal header; the moving-average filter of property C06)

#include <memory>
#include <type_traits>

namespace vf {

enum ProcKind : int {
    PK_FIR_R = 0,
    PK_FIR_C,
    PK_FFTFIR_R,
    PK_FFTFIR_C,
    PK_DECIM,
    PK_INTERP,
    PK_RATECONV,
    PK_RESAMPLER,
    PK_DELAY_R,
    PK_DELAY_C,
    PK_MEDIAN,
    PK_MA_R,
    PK_MA_C,
    PK_HILBERT,
    PK_TUNER,
    PK_AGC_R,
    PK_AGC_C,
    PK_COMPRESSOR,
    PK_LIMITER,
    PK_NOISEGATE,
    PK_LMS_R,
    PK_LMS_C,
    PK_RLS_R,
    PK_RLS_C,
    PK_FFTFIR_CTAPS_RIN,   // complex taps, real input stream
    PK_FFTFIR_RTAPS_CIN,   // real taps, complex input stream
    PK_COUNT
};

inline const char* proc_name(int k) {
    static const char* n[] = {"FirFilterR", "FirFilterC", "FftFilterR", "FftFilterC", "FIRDecimator", "FIRInterpolator", "FIRRateConverter", "FIRResampler",
                              "DelayReal", "DelayCmplx", "MedianFilter", "MAFilterR", "MAFilterC", "HilbertFilter", "Tuner", "AgcR", "AgcC", "Compressor",
                              "Limiter", "NoiseGate", "LmsFilterR", "LmsFilterC", "RlsFilterR", "RlsFilterC", "FftFilterCtapsRin", "FftFilterRtapsCin"};
    return (k >= 0 && k < PK_COUNT) ? n[k] : "?";
}

struct ProcSpec {
    int kind{0};
    uint32_t cseed{1};
    double p[6]{0, 0, 0, 0, 0, 0};
};

struct Proc {
    virtual ~Proc() = default;
    int granule{1};     // input samples per granule (documented frame granularity)
    int in_width{1};    // doubles per input sample
    int nch{1};         // output channels
    int out_width{1};   // doubles per output sample (all channels but `gain` of complex AGC share it)
    int ch1_width{1};
    int memory{1};      // samples of history the processor carries
    int block{0};       // internal block size (0: none)
    // one call on `n` input samples; appends the outputs to the channels
    virtual void call(const double* in, int n, std::vector<std::vector<double>>& ch) = 0;
    // documented number of output samples of channel 0 for a call on n samples (-1: unspecified)
    virtual int64_t expect_out(int n) const {
        return n;
    }
    // a copy of the processor INCLUDING its state (nullptr: the class is not copyable)
    virtual std::unique_ptr<Proc> clone() const {
        return nullptr;
    }
    // a new processor that took over the state of this one by MOVE construction (this one must not be used afterwards)
    virtual std::unique_ptr<Proc> move_clone() {
        return nullptr;
    }
    // copy ASSIGNMENT of `o` (same adapter type) over this object; false: the class is not copy-assignable
    virtual bool assign_from(const Proc&) {
        return false;
    }
    // true: a copy is an independent object (value semantics); false: the library documents / implements the class as a
    // handle whose copies share one state (Agc, FIRResampler): only "continue with the copy, drop the original" is meaningful
    bool value_copy{true};
    // an invalid call (wrong granularity / mismatched lengths) that must be rejected by exception WITHOUT side effects:
    // 0 = not applicable for this class, 1 = rejected, -1 = accepted
    virtual int bad_call(uint32_t) {
        return 0;
    }
};

namespace detail {

template<class X>
bool assign_impl(X& dst, const Proc& o) {
    if constexpr (std::is_copy_assignable_v<X>) {
        dst = static_cast<const X&>(o);
        return true;
    } else {
        return false;
    }
}

inline arr_real positive_h(uint32_t seed, int n) {
    arr_real h = rand_coeffs(seed, n);
    for (int i = 0; i < n; ++i) {
        h[i] = std::fabs(h[i]) + 0.1;
    }
    return h;
}

template<class T>
struct FirP : Proc {
    dsplib::FirFilter<T> f;
    explicit FirP(const dsplib::base_array<T>& h)
      : f(h) {
        memory = h.size() - 1;
        in_width = out_width = std::is_same_v<T, cmplx_t> ? 2 : 1;
    }
    std::unique_ptr<Proc> clone() const override {
        return std::make_unique<FirP<T>>(*this);
    }
    std::unique_ptr<Proc> move_clone() override {
        return std::make_unique<FirP<T>>(std::move(*this));
    }
    bool assign_from(const Proc& o) override {
        return detail::assign_impl(*this, o);
    }
    void call(const double* in, int n, std::vector<std::vector<double>>& ch) override {
        if constexpr (std::is_same_v<T, cmplx_t>) {
            append(ch[0], f.process(to_carr(in, size_t(n))));
        } else {
            append(ch[0], f.process(to_arr(in, size_t(n))));
        }
    }
};

template<class T>
struct FftFirP : Proc {
    dsplib::FftFilter f;
    explicit FftFirP(const dsplib::base_array<T>& h)
      : f(h) {
        memory = h.size() - 1;
        block = f.block_size();
        in_width = out_width = std::is_same_v<T, cmplx_t> ? 2 : 1;
    }
    std::unique_ptr<Proc> clone() const override {
        return std::make_unique<FftFirP<T>>(*this);
    }
    std::unique_ptr<Proc> move_clone() override {
        return std::make_unique<FftFirP<T>>(std::move(*this));
    }
    bool assign_from(const Proc& o) override {
        return detail::assign_impl(*this, o);
    }
    void call(const double* in, int n, std::vector<std::vector<double>>& ch) override {
        if constexpr (std::is_same_v<T, cmplx_t>) {
            append(ch[0], f.process(to_carr(in, size_t(n))));
        } else {
            append(ch[0], f.process(to_arr(in, size_t(n))));
        }
    }
    int64_t expect_out(int) const override {
        return -1;   // "usually in.size() != out.size()": only the concatenation is specified
    }
};

// FftFilter whose tap type differs from the stream type (both overloads of process() exist for every filter)
struct FftFirMixedP : Proc {
    dsplib::FftFilter f;
    bool real_in;
    FftFirMixedP(const arr_cmplx& h, bool rin)
      : f(h)
      , real_in(rin) {
        memory = h.size() - 1;
        block = f.block_size();
        in_width = out_width = rin ? 1 : 2;
    }
    std::unique_ptr<Proc> clone() const override {
        return std::make_unique<FftFirMixedP>(*this);
    }
    std::unique_ptr<Proc> move_clone() override {
        return std::make_unique<FftFirMixedP>(std::move(*this));
    }
    bool assign_from(const Proc& o) override {
        return detail::assign_impl(*this, o);
    }
    void call(const double* in, int n, std::vector<std::vector<double>>& ch) override {
        if (real_in) {
            append(ch[0], f.process(to_arr(in, size_t(n))));
        } else {
            append(ch[0], f.process(to_carr(in, size_t(n))));
        }
    }
    int64_t expect_out(int) const override {
        return -1;
    }
};

template<class C>
struct ResampP : Proc {
    C r;
    ResampP(C c, int mem, bool value)
      : r(std::move(c)) {
        granule = r.decim_rate();
        memory = mem;
        value_copy = value;
    }
    std::unique_ptr<Proc> clone() const override {
        return std::make_unique<ResampP<C>>(*this);
    }
    std::unique_ptr<Proc> move_clone() override {
        return std::make_unique<ResampP<C>>(std::move(*this));
    }
    bool assign_from(const Proc& o) override {
        return detail::assign_impl(*this, o);
    }
    void call(const double* in, int n, std::vector<std::vector<double>>& ch) override {
        append(ch[0], r.process(to_arr(in, size_t(n))));
    }
    int64_t expect_out(int n) const override {
        return int64_t(n) * r.interp_rate() / r.decim_rate();
    }
    int bad_call(uint32_t seed) override {
        if (granule <= 1) {
            return 0;
        }
        // a frame that is not a multiple of the documented granule
        const int n = granule * int(1 + seed % 3) + 1 + int(seed % uint32_t(granule - 1));
        try {
            (void)r.process(arr_real(n));
        } catch (const std::exception&) {
            return 1;
        }
        return -1;
    }
};

template<class T>
struct DelayP : Proc {
    dsplib::Delay<T> d;
    explicit DelayP(dsplib::Delay<T> dd, int len)
      : d(std::move(dd)) {
        memory = len;
        in_width = out_width = std::is_same_v<T, cmplx_t> ? 2 : 1;
    }
    std::unique_ptr<Proc> clone() const override {
        return std::make_unique<DelayP<T>>(*this);
    }
    std::unique_ptr<Proc> move_clone() override {
        return std::make_unique<DelayP<T>>(std::move(*this));
    }
    bool assign_from(const Proc& o) override {
        return detail::assign_impl(*this, o);
    }
    void call(const double* in, int n, std::vector<std::vector<double>>& ch) override {
        if constexpr (std::is_same_v<T, cmplx_t>) {
            append(ch[0], d.process(to_carr(in, size_t(n))));
        } else {
            append(ch[0], d.process(to_arr(in, size_t(n))));
        }
    }
};

struct MedianP : Proc {
    dsplib::MedianFilter f;
    MedianP(int n, double init)
      : f(n, init) {
        memory = n;
    }
    std::unique_ptr<Proc> clone() const override {
        return std::make_unique<MedianP>(*this);
    }
    std::unique_ptr<Proc> move_clone() override {
        return std::make_unique<MedianP>(std::move(*this));
    }
    bool assign_from(const Proc& o) override {
        return detail::assign_impl(*this, o);
    }
    void call(const double* in, int n, std::vector<std::vector<double>>& ch) override {
        append(ch[0], f.process(to_arr(in, size_t(n))));
    }
};

template<class T>
struct MaP : Proc {
    dsplib::MAFilter<T> f;
    explicit MaP(int n)
      : f(n) {
        memory = n;
        block = n;
        in_width = out_width = std::is_same_v<T, cmplx_t> ? 2 : 1;
    }
    std::unique_ptr<Proc> clone() const override {
        return std::make_unique<MaP<T>>(*this);
    }
    std::unique_ptr<Proc> move_clone() override {
        return std::make_unique<MaP<T>>(std::move(*this));
    }
    bool assign_from(const Proc& o) override {
        return detail::assign_impl(*this, o);
    }
    void call(const double* in, int n, std::vector<std::vector<double>>& ch) override {
        if constexpr (std::is_same_v<T, cmplx_t>) {
            append(ch[0], f.process(to_carr(in, size_t(n))));
        } else {
            append(ch[0], f.process(to_arr(in, size_t(n))));
        }
    }
};

struct HilbertP : Proc {
    dsplib::HilbertFilter f;
    HilbertP(int flen, double tw)
      : f(flen, tw) {
        memory = f.impz().size() - 1;
        out_width = 2;
    }
    std::unique_ptr<Proc> clone() const override {
        return std::make_unique<HilbertP>(*this);
    }
    std::unique_ptr<Proc> move_clone() override {
        return std::make_unique<HilbertP>(std::move(*this));
    }
    bool assign_from(const Proc& o) override {
        return detail::assign_impl(*this, o);
    }
    void call(const double* in, int n, std::vector<std::vector<double>>& ch) override {
        append(ch[0], f.process(to_arr(in, size_t(n))));
    }
};

struct TunerP : Proc {
    dsplib::Tuner t;
    TunerP(int fs, double f)
      : t(fs, f) {
        memory = 1;
        block = fs;
        in_width = out_width = 2;
    }
    std::unique_ptr<Proc> clone() const override {
        return std::make_unique<TunerP>(*this);
    }
    std::unique_ptr<Proc> move_clone() override {
        return std::make_unique<TunerP>(std::move(*this));
    }
    bool assign_from(const Proc& o) override {
        return detail::assign_impl(*this, o);
    }
    void call(const double* in, int n, std::vector<std::vector<double>>& ch) override {
        append(ch[0], t.process(to_carr(in, size_t(n))));
    }
};

template<class T>
struct AgcP : Proc {
    dsplib::Agc a;
    AgcP(double target, double maxg, int avg, double tr, double tf)
      : a(target, maxg, avg, tr, tf) {
        value_copy = false;   // Agc is a handle: copies share one implementation object
        memory = avg;
        block = avg;
        nch = 2;
        in_width = out_width = std::is_same_v<T, cmplx_t> ? 2 : 1;
    }
    std::unique_ptr<Proc> clone() const override {
        return std::make_unique<AgcP<T>>(*this);
    }
    std::unique_ptr<Proc> move_clone() override {
        return std::make_unique<AgcP<T>>(std::move(*this));
    }
    bool assign_from(const Proc& o) override {
        return detail::assign_impl(*this, o);
    }
    void call(const double* in, int n, std::vector<std::vector<double>>& ch) override {
        if constexpr (std::is_same_v<T, cmplx_t>) {
            auto r = a.process(to_carr(in, size_t(n)));
            append(ch[0], r.out);
            append(ch[1], r.gain);
        } else {
            auto r = a.process(to_arr(in, size_t(n)));
            append(ch[0], r.out);
            append(ch[1], r.gain);
        }
    }
};

template<class D>
struct DynP : Proc {
    D d;
    template<class... A>
    explicit DynP(int mem, A... a)
      : d(a...) {
        memory = mem;
        nch = 2;
    }
    std::unique_ptr<Proc> clone() const override {
        return std::make_unique<DynP<D>>(*this);
    }
    std::unique_ptr<Proc> move_clone() override {
        return std::make_unique<DynP<D>>(std::move(*this));
    }
    bool assign_from(const Proc& o) override {
        return detail::assign_impl(*this, o);
    }
    void call(const double* in, int n, std::vector<std::vector<double>>& ch) override {
        auto r = d.process(to_arr(in, size_t(n)));
        append(ch[0], r.out);
        append(ch[1], r.gain);
    }
};

template<class F, class T>
struct AdaptP : Proc {
    F f;
    template<class... A>
    explicit AdaptP(int len, A... a)
      : f(len, a...) {
        memory = len;
        nch = 2;
        in_width = std::is_same_v<T, cmplx_t> ? 4 : 2;
        out_width = std::is_same_v<T, cmplx_t> ? 2 : 1;
        ch1_width = out_width;
    }
    std::unique_ptr<Proc> clone() const override {
        return std::make_unique<AdaptP<F, T>>(*this);
    }
    std::unique_ptr<Proc> move_clone() override {
        return std::make_unique<AdaptP<F, T>>(std::move(*this));
    }
    bool assign_from(const Proc& o) override {
        return detail::assign_impl(*this, o);
    }
    void call(const double* in, int n, std::vector<std::vector<double>>& ch) override {
        dsplib::base_array<T> x(n);
        dsplib::base_array<T> d(n);
        for (int i = 0; i < n; ++i) {
            if constexpr (std::is_same_v<T, cmplx_t>) {
                x[i] = cmplx_t{in[4 * i], in[4 * i + 1]};
                d[i] = cmplx_t{in[4 * i + 2], in[4 * i + 3]};
            } else {
                x[i] = in[2 * i];
                d[i] = in[2 * i + 1];
            }
        }
        auto r = f.process(x, d);
        append(ch[0], r.y);
        append(ch[1], r.e);
    }
    int bad_call(uint32_t seed) override {
        // input and desired signal of different lengths
        dsplib::base_array<T> x(3 + int(seed % 5));
        dsplib::base_array<T> d(x.size() + 1 + int(seed % 2));
        try {
            (void)f.process(x, d);
        } catch (const std::exception&) {
            return 1;
        }
        return -1;
    }
};

}   // namespace detail

inline std::unique_ptr<Proc> make_proc(const ProcSpec& s) {
    using namespace detail;
    const double* p = s.p;
    auto I = [&](int i) { return int(std::llround(p[i])); };
    switch (s.kind) {
    case PK_FIR_R:
        return std::make_unique<FirP<real_t>>(rand_coeffs(s.cseed, I(0)));
    case PK_FIR_C:
        return std::make_unique<FirP<cmplx_t>>(rand_ccoeffs(s.cseed, I(0)));
    case PK_FFTFIR_R:
        return std::make_unique<FftFirP<real_t>>(rand_coeffs(s.cseed, I(0)));
    case PK_FFTFIR_C:
        return std::make_unique<FftFirP<cmplx_t>>(rand_ccoeffs(s.cseed, I(0)));
    case PK_FFTFIR_CTAPS_RIN:
        return std::make_unique<FftFirMixedP>(rand_ccoeffs(s.cseed, I(0)), true);
    case PK_FFTFIR_RTAPS_CIN:
        return std::make_unique<FftFirMixedP>(dsplib::complex(rand_coeffs(s.cseed, I(0))), false);
    case PK_DECIM: {
        const int m = I(0);
        const int hl = I(1);
        if (hl > 0) {
            return std::make_unique<ResampP<dsplib::FIRDecimator>>(dsplib::FIRDecimator(m, positive_h(s.cseed, hl)), hl, true);
        }
        return std::make_unique<ResampP<dsplib::FIRDecimator>>(dsplib::FIRDecimator(m), 24 * m, true);
    }
    case PK_INTERP: {
        const int l = I(0);
        const int hl = I(1);
        if (hl > 0) {
            return std::make_unique<ResampP<dsplib::FIRInterpolator>>(dsplib::FIRInterpolator(l, positive_h(s.cseed, hl)), hl / l + 1, true);
        }
        return std::make_unique<ResampP<dsplib::FIRInterpolator>>(dsplib::FIRInterpolator(l), 24, true);
    }
    case PK_RATECONV: {
        const int l = I(0);
        const int m = I(1);
        const int hl = I(2);
        if (hl > 0) {
            return std::make_unique<ResampP<dsplib::FIRRateConverter>>(dsplib::FIRRateConverter(l, m, positive_h(s.cseed, hl)), hl / l + 1, true);
        }
        return std::make_unique<ResampP<dsplib::FIRRateConverter>>(dsplib::FIRRateConverter(l, m), 24 * std::max(1, m / l), true);
    }
    case PK_RESAMPLER: {
        const int ofs = I(0);
        const int ifs = I(1);
        const int hl = I(2);
        // FIRResampler is a handle (shared_ptr to the concrete resampler): copies share its state
        if (hl > 0) {
            return std::make_unique<ResampP<dsplib::FIRResampler>>(dsplib::FIRResampler(ofs, ifs, positive_h(s.cseed, hl)), 48, false);
        }
        return std::make_unique<ResampP<dsplib::FIRResampler>>(dsplib::FIRResampler(ofs, ifs), 48, false);
    }
    case PK_DELAY_R:
        if (I(1)) {
            return std::make_unique<DelayP<real_t>>(dsplib::Delay<real_t>(rand_coeffs(s.cseed, I(0))), I(0));
        }
        return std::make_unique<DelayP<real_t>>(dsplib::Delay<real_t>(I(0)), I(0));
    case PK_DELAY_C:
        if (I(1)) {
            return std::make_unique<DelayP<cmplx_t>>(dsplib::Delay<cmplx_t>(rand_ccoeffs(s.cseed, I(0))), I(0));
        }
        return std::make_unique<DelayP<cmplx_t>>(dsplib::Delay<cmplx_t>(I(0)), I(0));
    case PK_MEDIAN:
        return std::make_unique<MedianP>(I(0), p[1]);
    case PK_MA_R:
        return std::make_unique<MaP<real_t>>(I(0));
    case PK_MA_C:
        return std::make_unique<MaP<cmplx_t>>(I(0));
    case PK_HILBERT:
        return std::make_unique<HilbertP>(I(0), p[1]);
    case PK_TUNER:
        return std::make_unique<TunerP>(I(0), p[1]);
    case PK_AGC_R:
        return std::make_unique<AgcP<real_t>>(p[0], p[1], I(2), p[3], p[4]);
    case PK_AGC_C:
        return std::make_unique<AgcP<cmplx_t>>(p[0], p[1], I(2), p[3], p[4]);
    case PK_COMPRESSOR:
        return std::make_unique<DynP<dsplib::Compressor>>(1, I(0), p[1], I(2), p[3], p[4], p[5]);
    case PK_LIMITER:
        return std::make_unique<DynP<dsplib::Limiter>>(1, I(0), p[1], p[2], p[3], p[4]);
    case PK_NOISEGATE:
        return std::make_unique<DynP<dsplib::NoiseGate>>(int(p[4] * p[0]) + 1, I(0), p[1], p[2], p[3], p[4]);
    case PK_LMS_R:
        return std::make_unique<AdaptP<dsplib::LmsFilter<real_t>, real_t>>(I(0), p[1], I(2) ? dsplib::LmsType::NLMS : dsplib::LmsType::LMS, p[3]);
    case PK_LMS_C:
        return std::make_unique<AdaptP<dsplib::LmsFilter<cmplx_t>, cmplx_t>>(I(0), p[1], I(2) ? dsplib::LmsType::NLMS : dsplib::LmsType::LMS, p[3]);
    case PK_RLS_R:
        return std::make_unique<AdaptP<dsplib::RlsFilter<real_t>, real_t>>(I(0), p[1], p[2]);
    case PK_RLS_C:
        return std::make_unique<AdaptP<dsplib::RlsFilter<cmplx_t>, cmplx_t>>(I(0), p[1], p[2]);
    default:
        return nullptr;
    }
}

// parameters over the grid of property C06; `big` widens sizes (thorough tier)
inline ProcSpec gen_proc_spec(Rng& r, int kind, bool big) {
    ProcSpec s;
    s.kind = kind;
    s.cseed = r.seed32();
    double* p = s.p;
    const std::vector<double> LM{1, 2, 3, 4, 5, 6, 7, 8, 9, 10, 11, 12};
    switch (kind) {
    case PK_FIR_R:
    case PK_FIR_C:
        p[0] = double(r.logi(2, big ? 300 : 120));
        break;
    case PK_FFTFIR_R:
    case PK_FFTFIR_C:
    case PK_FFTFIR_CTAPS_RIN:
    case PK_FFTFIR_RTAPS_CIN:
        p[0] = double(r.logi(2, big ? 1000 : 300));
        break;
    case PK_DECIM:
        p[0] = r.pick(LM);
        p[1] = r.chance(0.5) ? 0 : double(r.logi(1, 200));
        break;
    case PK_INTERP:
        p[0] = r.pick(LM);
        p[1] = r.chance(0.5) ? 0 : double(r.logi(1, 200));
        break;
    case PK_RATECONV: {
        const int c = int(r.below(10));
        if (c == 0) {
            p[0] = 160;
            p[1] = 441;
        } else if (c == 1) {
            p[0] = 147;
            p[1] = 160;
        } else {
            p[0] = r.pick(LM);
            p[1] = r.pick(LM);
        }
        p[2] = r.chance(0.5) ? 0 : double(r.logi(1, 400));
        break;
    }
    case PK_RESAMPLER: {
        const int c = int(r.below(8));
        const double pairs[8][2] = {{48000, 44100}, {44100, 48000}, {8000, 16000}, {16000, 8000}, {160, 441}, {3, 2}, {5, 5}, {7, 12}};
        p[0] = pairs[c][0];
        p[1] = pairs[c][1];
        p[2] = r.chance(0.7) ? 0 : double(r.logi(1, 400));
        break;
    }
    case PK_DELAY_R:
    case PK_DELAY_C:
        p[0] = double(r.logi(1, big ? 2000 : 300));
        p[1] = r.chance(0.3) ? 1 : 0;
        break;
    case PK_MEDIAN:
        p[0] = double(r.range(3, 33));
        p[1] = r.chance(0.5) ? 0 : r.normal();
        break;
    case PK_MA_R:
    case PK_MA_C:
        p[0] = double(r.logi(1, 1000));
        break;
    case PK_HILBERT:
        p[0] = double(r.range(31, big ? 401 : 151));
        p[1] = r.logu(0.005, 0.1);
        break;
    case PK_TUNER: {
        const int fs = int(r.logi(8, big ? 100000 : 5000));
        p[0] = fs;
        p[1] = r.chance(0.5) ? double(r.range(-(fs / 2), fs / 2)) : r.real(-double(fs / 2), double(fs / 2));
        break;
    }
    case PK_AGC_R:
    case PK_AGC_C:
        p[0] = r.logu(0.01, 100);
        p[1] = r.real(10, 80);
        p[2] = double(r.logi(1, 1000));
        p[3] = r.logu(1e-3, 0.1);
        p[4] = r.logu(1e-3, 0.1);
        break;
    case PK_COMPRESSOR:
        p[0] = r.pick(std::vector<double>{8000, 16000, 44100, 48000, 96000, 192000});
        p[1] = r.real(-50, 0);
        p[2] = double(r.range(1, 50));
        p[3] = r.chance(0.3) ? 0 : r.real(0, 20);
        p[4] = r.chance(0.3) ? 0 : r.logu(1e-4, 4);
        p[5] = r.chance(0.3) ? 0 : r.logu(1e-4, 4);
        break;
    case PK_LIMITER:
        p[0] = r.pick(std::vector<double>{8000, 16000, 44100, 48000, 96000, 192000});
        p[1] = r.real(-50, 0);
        p[2] = r.chance(0.3) ? 0 : r.real(0, 20);
        p[3] = r.chance(0.5) ? 0 : r.logu(1e-4, 4);
        p[4] = r.chance(0.3) ? 0 : r.logu(1e-4, 4);
        break;
    case PK_NOISEGATE:
        p[0] = r.pick(std::vector<double>{8000, 16000, 44100, 48000});
        p[1] = r.real(-60, 0);
        p[2] = r.chance(0.3) ? 0 : r.logu(1e-4, 1);
        p[3] = r.chance(0.3) ? 0 : r.logu(1e-4, 1);
        p[4] = r.chance(0.3) ? 0 : r.logu(1e-4, 0.05);
        break;
    case PK_LMS_R:
    case PK_LMS_C: {
        const int len = int(r.range(2, 32));
        p[0] = len;
        p[2] = r.chance(0.5) ? 1 : 0;
        p[1] = (p[2] != 0) ? r.real(0.2, 1.0) : r.real(0.02, 0.2) / len;
        p[3] = r.chance(0.5) ? 1.0 : r.real(0.99, 1.0);
        break;
    }
    case PK_RLS_R:
    case PK_RLS_C:
        p[0] = double(r.range(2, big ? 32 : 12));
        p[1] = r.chance(0.3) ? 1.0 : r.real(0.9, 1.0);
        p[2] = r.logu(1e-2, 1e4);
        break;
    default:
        break;
    }
    return s;
}

}   // namespace vf
