// Harness-side helpers around the scheduler: isolated runs, simulated threads, schedule config.
#pragma once
#include "common.h"
#include "simsched.h"

#include <atomic>
#include <exception>
#include <thread>

namespace vf {

// Execute fn in a fresh OS thread and join it: every run starts with cold thread_local state
// (plan caches, random engine), so a run inside a long-lived worker is identical to the same
// run replayed in a fresh process.
template<class Fn>
void run_isolated(Fn&& fn) {
    std::thread t([&] { fn(); });
    t.join();
}

// Schedule parameters live in the plan (fixed before execution).
inline void gen_sched_params(Rng& r, Plan& pl, int nthreads, bool allow_edge = true) {
    pl.p["nthr"] = nthreads;
    pl.p["sched_seed"] = r.seed32();
    int pol = sim::POL_OPBOUND;
    if (allow_edge && nthreads > 1) {
        const double u = r.real();
        pol = (u < 0.15) ? sim::POL_OPBOUND : (u < 0.60) ? sim::POL_UNIFORM : (u < 0.85) ? sim::POL_PCT : sim::POL_STALL;
    }
    pl.p["policy"] = pol;
    pl.p["p_op"] = r.pick(std::vector<double>{0.1, 0.5, 0.9});
    pl.p["p_edge"] = (pol == sim::POL_UNIFORM || pol == sim::POL_STALL) ? r.logu(1e-5, 1e-2) : 0.0;
    pl.p["pct_d"] = (pol == sim::POL_PCT) ? double(r.range(1, 3)) : 0.0;
    pl.p["pct_span"] = double(r.logi(100, 2000000));
    pl.p["stall_thr"] = (pol == sim::POL_STALL) ? double(r.below(uint64_t(nthreads))) : -1.0;
    pl.p["stall_from"] = double(r.logi(1, 200000));
    pl.p["stall_len"] = double(r.logi(100, 2000000));
}

struct SimThreads {
    sim::Config cfg;
    std::vector<sim::Switch> replay;
    std::vector<std::string> errors;   // exceptions that escaped a thread body

    void configure(const Plan& pl, int nthreads) {
        cfg = sim::Config{};
        cfg.nthreads = nthreads;
        cfg.seed = uint64_t(pl.iparam("sched_seed", 1));
        cfg.policy = int(pl.iparam("policy", sim::POL_OPBOUND));
        cfg.p_edge = pl.param("p_edge", 0);
        cfg.p_op = pl.param("p_op", 0.5);
        cfg.pct_d = int(pl.iparam("pct_d", 0));
        cfg.pct_span = uint64_t(pl.iparam("pct_span", 1000));
        cfg.stall_thr = int(pl.iparam("stall_thr", -1));
        cfg.stall_from = uint64_t(pl.iparam("stall_from", 0));
        cfg.stall_len = uint64_t(pl.iparam("stall_len", 0));
        if (nthreads <= 1) {
            cfg.policy = sim::POL_OPBOUND;
        }
        if (pl.has_sched) {
            replay.clear();
            for (const auto& s : pl.sched) {
                replay.push_back(sim::Switch{s.idx, s.thr});
            }
            cfg.policy = sim::POL_REPLAY;
            cfg.replay = replay.data();
            cfg.nreplay = replay.size();
        }
    }

    // body(i) runs as simulated thread i
    void run(const std::function<void(int)>& body) {
        const int n = cfg.nthreads;
        errors.assign(size_t(n), std::string());
        sim::begin(cfg);
        std::vector<std::thread> th;
        th.reserve(size_t(n));
        for (int i = 0; i < n; ++i) {
            th.emplace_back([this, i, &body] {
                sim::thread_enter(i);
                try {
                    body(i);
                } catch (const std::exception& e) {
                    errors[size_t(i)] = std::string("exception: ") + e.what();
                } catch (...) {
                    errors[size_t(i)] = "exception: unknown";
                }
            });
        }
        sim::run_all();
        for (auto& t : th) {
            t.join();
        }
    }

    void collect(Result& res) const {
        const sim::Stats& st = sim::stats();
        res.ctr["sim.yields"] += int64_t(st.yields);
        res.ctr["sim.edges"] += int64_t(st.edges);
        res.ctr["sim.switches"] += int64_t(st.switches);
        res.ctr["fault.preempt"] += int64_t(st.edge_switches);
        res.ctr["sim.lock_blocked"] += int64_t(st.lock_blocked);
        res.ctr["probe.guard_init_nonpreemptible"] += int64_t(st.guard_sections);
        res.ctr["fault.stall_redirects"] += int64_t(st.stall_skips);
        res.digest.u64(st.sched_hash);
        const sim::Switch* sw = nullptr;
        const size_t n = sim::taken_switches(&sw);
        res.sched.clear();
        for (size_t i = 0; i < n; ++i) {
            res.sched.push_back(SwitchRec{sw[i].idx, sw[i].thr});
        }
        res.sched_hash = st.sched_hash;
        res.nthreads = cfg.nthreads;
    }
};

// current-op label for diagnostics of aborts (sanitizer, budget)
void set_cur_op(const char* label);
void set_cur_opf(const char* f, ...) __attribute__((format(printf, 1, 2)));

}   // namespace vf
