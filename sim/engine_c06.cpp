// C06 — streaming processors are invariant to how the stream is framed; instances are independent.
// The simulated transport cuts every stream into frames, the scheduler interleaves the calls of
// several instances on 1..4 simulated threads, churn constructs/destroys other instances in between.
// Oracle: concatenated chunked output == output of a fresh instance fed the whole stream at once.
#include "procs.h"
#include "simrun.h"

namespace vf {
namespace {

constexpr int A_KIND = 0, A_CSEED = 1, A_P0 = 2, A_DSEED = 8, A_DSCALE = 9, A_N = 10, A_FSTYLE = 11, A_FSEED = 12, A_FPARAM = 13, A_NARGS = 14;

struct Inst {
    ProcSpec spec;
    int thr{0};
    uint32_t dseed{1};
    double dscale{1};
    int64_t n{0};   // granules
    int fstyle{0};
    uint32_t fseed{1};
    int64_t fparam{0};
    // runtime
    std::unique_ptr<Proc> proc;
    std::vector<double> input;
    std::vector<int> frames;
    size_t next{0};
    size_t pos{0};   // samples consumed
    std::vector<std::vector<double>> ch;
    std::string error;
    bool len_ok{true};
    std::string len_msg;
    // object-lifetime events inside the stream (derived from fseed): the processor is replaced by a COPY of itself, or
    // forked into original + copy that both continue; a call of invalid shape is offered and must be rejected cleanly
    int64_t copy_at{-1};
    int copy_mode{0};   // 0: continue with the copy, drop the original; 1: both continue; 2: move-constructed successor; 3: copy-assigned over a used object
    int64_t bad_at{-1};
    std::unique_ptr<Proc> fork;
    std::vector<std::vector<double>> fork_ch;
    int copies{0};
    int moved{0};
    int assigned{0};
    int rejected{0};
};

int64_t max_stream(int kind, bool big) {
    switch (kind) {
    case PK_RLS_R:
    case PK_RLS_C:
        return big ? 20000 : 2500;
    case PK_LMS_R:
    case PK_LMS_C:
    case PK_MEDIAN:
        return big ? 50000 : 8000;
    case PK_FIR_R:
    case PK_FIR_C:
    case PK_HILBERT:
        return big ? 100000 : 15000;
    default:
        return big ? 100000 : 20000;
    }
}

Plan gen(uint64_t seed, const std::string& tier) {
    Rng r(mix(seed, 0xC06));
    const bool big = (tier == "thorough");
    Plan pl;
    pl.engine = "C06";
    pl.seed = seed;
    pl.tier = tier;
    const int nthr = r.chance(0.5) ? 1 : int(r.range(2, 4));
    gen_sched_params(r, pl, nthr);
    pl.p["order_seed"] = r.seed32();
    pl.p["p_churn"] = r.pick(std::vector<double>{0.0, 0.05, 0.3});
    const int ninst = int(r.range(1, 6));
    for (int i = 0; i < ninst; ++i) {
        Op op;
        op.kind = "inst";
        op.thr = int(r.below(uint64_t(nthr)));
        const int kind = int(r.below(PK_COUNT));
        const ProcSpec s = gen_proc_spec(r, kind, big);
        op.a.assign(A_NARGS, 0.0);
        op.a[A_KIND] = kind;
        op.a[A_CSEED] = s.cseed;
        for (int k = 0; k < 6; ++k) {
            op.a[size_t(A_P0 + k)] = s.p[k];
        }
        op.a[A_DSEED] = r.seed32();
        op.a[A_DSCALE] = r.logu(1e-3, 10);
        // stream length in samples, then in granules
        int granule = 1;
        if (kind == PK_DECIM) {
            granule = int(s.p[0]);
        } else if (kind == PK_RATECONV) {
            granule = int(s.p[1]);
        } else if (kind == PK_RESAMPLER) {
            int a = int(s.p[0]);
            int b = int(s.p[1]);
            int g = a;
            int h = b;
            while (h) {
                const int t = g % h;
                g = h;
                h = t;
            }
            granule = b / g;
        }
        int style = int(r.pick(std::vector<double>{FS_ONES, FS_FIXED, FS_HEAVY, FS_HEAVY, FS_NEARMEM, FS_NEARMEM, FS_SPLIT2, FS_BITMASK, FS_BITMASK}));
        if (r.chance(big ? 0.12 : 0.05)) {
            style = FS_ALLMASKS;   // exhaustive over the framings of one short stream
        }
        int64_t nsamp = r.logi(10, max_stream(kind, big));
        int64_t n = std::max<int64_t>(1, nsamp / granule);
        if (style == FS_BITMASK) {
            n = r.range(2, 12);
        }
        if (style == FS_ALLMASKS) {
            n = r.range(2, big ? 11 : 9);
        }
        if (style == FS_ONES) {
            n = std::min<int64_t>(n, big ? 20000 : 3000);
        }
        op.a[A_N] = double(n);
        op.a[A_FSTYLE] = style;
        op.a[A_FSEED] = r.seed32();
        int64_t fparam = 0;
        if (style == FS_FIXED) {
            fparam = r.logi(1, std::max<int64_t>(1, n));
        } else if (style == FS_SPLIT2) {
            fparam = r.range(1, std::max<int64_t>(1, n - 1));
        } else if (style == FS_BITMASK) {
            fparam = int64_t(r.below(uint64_t(1) << (n - 1)));
        }
        op.a[A_FPARAM] = double(fparam);
        pl.ops.push_back(op);
        if (r.chance(0.15)) {
            // a twin on the same thread: same kind and integer-valued parameters, other coefficients / fractional parameters / data.
            // State that leaks between instances through anything keyed by "similar" parameters shows up as a mismatch.
            Op tw = op;
            tw.a[A_CSEED] = r.seed32();
            if (r.chance(0.5)) {
                tw.a[A_DSEED] = r.seed32();   // otherwise the twin is fed the SAME samples (anything keyed by sample values alone would be shared)
            }
            tw.a[A_FSEED] = r.seed32();
            for (int k = 0; k < 6; ++k) {
                const double v = tw.a[size_t(A_P0 + k)];
                if (v != std::trunc(v)) {
                    const double w = std::trunc(v) + (v - std::trunc(v)) * r.real(0.1, 0.9);
                    tw.a[size_t(A_P0 + k)] = w;
                }
            }
            if (int(op.a[A_KIND]) == PK_HILBERT && r.chance(0.6)) {
                // a NEAR twin: same transition width, a slightly different length (both may fall into one internal design grid)
                tw.a[size_t(A_P0 + 1)] = op.a[size_t(A_P0 + 1)];
                tw.a[size_t(A_P0)] = std::max(31.0, op.a[size_t(A_P0)] + double(2 * r.range(1, 12)) * (r.chance(0.5) ? 1.0 : -1.0));
            }
            pl.ops.push_back(tw);
        }
    }
    return pl;
}

bool decode(const Op& op, Inst& in, int nthr) {
    if (op.kind != "inst" || op.a.size() < size_t(A_NARGS)) {
        return false;
    }
    in.spec.kind = int(op.iarg(A_KIND));
    if (in.spec.kind < 0 || in.spec.kind >= PK_COUNT) {
        return false;
    }
    in.spec.cseed = uint32_t(op.iarg(A_CSEED));
    for (int k = 0; k < 6; ++k) {
        in.spec.p[k] = op.arg(size_t(A_P0 + k));
    }
    in.thr = (op.thr >= 0 && op.thr < nthr) ? op.thr : 0;
    in.dseed = uint32_t(op.iarg(A_DSEED));
    in.dscale = op.arg(A_DSCALE, 1);
    in.n = op.iarg(A_N);
    in.fstyle = int(op.iarg(A_FSTYLE));
    in.fseed = uint32_t(op.iarg(A_FSEED));
    in.fparam = op.iarg(A_FPARAM);
    return in.n >= 1 && in.n <= 2000000;
}

// parameter sanity for hand-edited / shrunk plans (generated plans always pass)
bool spec_valid(const ProcSpec& s) {
    const double* p = s.p;
    auto in = [](double v, double lo, double hi) { return std::isfinite(v) && v >= lo && v <= hi; };
    switch (s.kind) {
    case PK_FIR_R:
    case PK_FIR_C:
    case PK_FFTFIR_R:
    case PK_FFTFIR_C:
    case PK_FFTFIR_CTAPS_RIN:
    case PK_FFTFIR_RTAPS_CIN:
        return in(p[0], 2, 5000);
    case PK_DECIM:
    case PK_INTERP:
        return in(p[0], 1, 1000) && in(p[1], 0, 5000);
    case PK_RATECONV:
    case PK_RESAMPLER:
        return in(p[0], 1, 200000) && in(p[1], 1, 200000) && in(p[2], 0, 5000);
    case PK_DELAY_R:
    case PK_DELAY_C:
        return in(p[0], 1, 100000);
    case PK_MEDIAN:
        return in(p[0], 3, 1000) && std::isfinite(p[1]);
    case PK_MA_R:
    case PK_MA_C:
        return in(p[0], 1, 100000);
    case PK_HILBERT:
        return in(p[0], 3, 2001) && in(p[1], 0.001, 0.2);
    case PK_TUNER:
        return in(p[0], 1, 1e6) && in(std::fabs(p[1]), 0, double(int(p[0]) / 2));
    case PK_AGC_R:
    case PK_AGC_C:
        return in(p[0], 1e-6, 1e6) && in(p[1], 0, 200) && in(p[2], 1, 100000) && in(p[3], 0, 1) && in(p[4], 0, 1);
    case PK_COMPRESSOR:
        return in(p[0], 1, 1e6) && in(p[1], -50, 0) && in(p[2], 1, 50) && in(p[3], 0, 20) && in(p[4], 0, 4) && in(p[5], 0, 4);
    case PK_LIMITER:
        return in(p[0], 1, 1e6) && in(p[1], -50, 0) && in(p[2], 0, 20) && in(p[3], 0, 4) && in(p[4], 0, 4);
    case PK_NOISEGATE:
        return in(p[0], 1, 1e6) && in(p[1], -140, 0) && in(p[2], 0, 4) && in(p[3], 0, 4) && in(p[4], 0, 4);
    case PK_LMS_R:
    case PK_LMS_C:
        return in(p[0], 2, 1000) && in(p[1], 0, 2) && in(p[3], 0, 1);
    case PK_RLS_R:
    case PK_RLS_C:
        return in(p[0], 1, 200) && in(p[1], 0.5, 1) && in(p[2], 1e-6, 1e8);
    default:
        return false;
    }
}

std::vector<double> make_input(const Inst& in, const Proc& pr) {
    const size_t ns = size_t(in.n) * size_t(pr.granule);
    if (pr.in_width == 1) {
        return gen_signal(in.dseed, ns, in.dscale);
    }
    // complex and/or adaptive: interleave independent component streams
    std::vector<std::vector<double>> comp;
    for (int w = 0; w < pr.in_width; ++w) {
        comp.push_back(gen_signal(in.dseed + uint32_t(w) * 7919u, ns, in.dscale));
    }
    std::vector<double> x(ns * size_t(pr.in_width));
    for (size_t i = 0; i < ns; ++i) {
        for (int w = 0; w < pr.in_width; ++w) {
            x[i * size_t(pr.in_width) + size_t(w)] = comp[size_t(w)][i];
        }
    }
    return x;
}

void churn(uint32_t cs) {
    Rng r(mix(cs, 0xC4));
    const ProcSpec s = gen_proc_spec(r, int(r.below(PK_COUNT)), false);
    set_cur_opf("C06 churn %s", proc_name(s.kind));
    auto pr = make_proc(s);
    Inst tmp;
    tmp.dseed = r.seed32();
    tmp.dscale = 1;
    tmp.n = r.range(1, 40);
    auto x = make_input(tmp, *pr);
    std::vector<std::vector<double>> ch(size_t(pr->nch));
    const int total = int(tmp.n) * pr->granule;
    const int cut = int(r.range(0, tmp.n)) * pr->granule;
    if (cut > 0) {
        pr->call(x.data(), cut, ch);
    }
    if (total - cut > 0) {
        pr->call(x.data() + size_t(cut) * size_t(pr->in_width), total - cut, ch);
    }
}

Result exec(const Plan& pl) {
    Result res;
    const int nthr = int(std::min<int64_t>(std::max<int64_t>(pl.iparam("nthr", 1), 1), 8));
    std::vector<Inst> inst;
    for (const auto& op : pl.ops) {
        Inst in;
        if (!decode(op, in, nthr) || !spec_valid(in.spec)) {
            res.invalid = true;
            res.ok = true;
            return res;
        }
        inst.push_back(std::move(in));
    }
    if (inst.empty()) {
        res.invalid = true;
        return res;
    }
    const uint32_t order_seed = uint32_t(pl.iparam("order_seed", 1));
    const double p_churn = pl.param("p_churn", 0);
    std::vector<int64_t> churns(size_t(nthr), 0);
    std::vector<int64_t> late_constructions(size_t(nthr), 0);

    SimThreads st;
    st.configure(pl, nthr);
    st.run([&](int me) {
        Rng r(mix(order_seed, uint64_t(me) + 1));
        std::vector<Inst*> mine;
        for (auto& in : inst) {
            if (in.thr == me) {
                mine.push_back(&in);
            }
        }
        // Instances are constructed lazily, when they are first chosen: an instance is often created while others of the same
        // kind are alive and have already processed data (constructors use the thread's plan caches and any shared state).
        auto construct = [&](Inst* in) {
            set_cur_opf("C06 construct %s", proc_name(in->spec.kind));
            try {
                in->proc = make_proc(in->spec);
                in->input = make_input(*in, *in->proc);
                in->frames = make_framing(in->fstyle == FS_ALLMASKS ? int(FS_ONES) : in->fstyle, in->fseed, in->n, in->fparam, std::max(1, in->proc->memory / in->proc->granule),
                                          in->proc->block / in->proc->granule);
                in->ch.assign(size_t(in->proc->nch), {});
                const uint64_t hz = mix(in->fseed, 0x0C0B);
                const int64_t nf = int64_t(in->frames.size());
                if (nf >= 2 && hz % 5 == 0) {
                    in->copy_at = 1 + int64_t((hz >> 8) % uint64_t(nf - 1));
                    in->copy_mode = int((hz >> 40) & 3);
                    if (!in->proc->value_copy && in->copy_mode == 1) {
                        in->copy_mode = 0;
                    }
                }
                if (nf >= 2 && hz % 7 == 0) {
                    in->bad_at = 1 + int64_t((hz >> 20) % uint64_t(nf - 1));
                }
            } catch (const std::exception& e) {
                in->error = std::string("construct: ") + e.what();
            }
            sim::op_boundary();
        };
        // interleave the calls of this thread's instances in seeded order
        for (;;) {
            std::vector<Inst*> live;
            for (Inst* in : mine) {
                if (in->error.empty() && (!in->proc || in->next < in->frames.size())) {
                    live.push_back(in);
                }
            }
            if (live.empty()) {
                break;
            }
            Inst* in = live[r.below(live.size())];
            if (!in->proc) {
                construct(in);
                if (!in->error.empty()) {
                    continue;
                }
                ++late_constructions[size_t(me)];
            }
            const int ns = in->frames[in->next] * in->proc->granule;
            if (int64_t(in->next) == in->bad_at) {
                set_cur_opf("C06 %s rejected call before frame %zu", proc_name(in->spec.kind), in->next);
                const int rc = in->proc->bad_call(uint32_t(in->fseed + in->next));
                if (rc < 0) {
                    in->error = fmt("before frame %zu: a call of invalid shape (wrong granularity / mismatched lengths) was accepted", in->next);
                }
                in->rejected += (rc > 0);
            }
            if (int64_t(in->next) == in->copy_at && in->error.empty()) {
                set_cur_opf("C06 %s copy before frame %zu", proc_name(in->spec.kind), in->next);
                std::unique_ptr<Proc> c;
                if (in->copy_mode == 2) {
                    c = in->proc->move_clone();   // state taken over by move construction; the moved-from object is destroyed
                    in->moved += (c != nullptr);
                } else if (in->copy_mode == 3) {
                    // copy ASSIGNMENT over a used object of the same configuration: everything it held must be replaced
                    try {
                        std::unique_ptr<Proc> fresh = make_proc(in->spec);
                        std::vector<std::vector<double>> scratch(size_t(fresh->nch));
                        const int pre = std::min<int64_t>(int64_t(in->n / size_t(fresh->granule)), 1 + int64_t(in->fseed % 7)) * fresh->granule;
                        if (pre > 0) {
                            fresh->call(in->input.data(), pre, scratch);
                        }
                        if (fresh->assign_from(*in->proc)) {
                            c = std::move(fresh);
                            ++in->assigned;
                        }
                    } catch (const std::exception& e) {
                        in->error = fmt("copy assignment before frame %zu: exception: %s", in->next, e.what());
                    }
                }
                if (!c && in->error.empty()) {
                    c = in->proc->clone();
                }
                if (c) {
                    ++in->copies;
                    if (in->copy_mode != 1) {
                        in->proc = std::move(c);   // the original is destroyed, the stream continues on the copy
                    } else {
                        in->fork = std::move(c);   // original and copy both continue with the same remaining stream
                        in->fork_ch = in->ch;
                    }
                }
            }
            set_cur_opf("C06 %s frame %zu len %d", proc_name(in->spec.kind), in->next, ns);
            const size_t before = in->ch[0].size();
            try {
                in->proc->call(in->input.data() + in->pos * size_t(in->proc->in_width), ns, in->ch);
                if (in->fork) {
                    in->fork->call(in->input.data() + in->pos * size_t(in->proc->in_width), ns, in->fork_ch);
                }
            } catch (const std::exception& e) {
                in->error = fmt("frame %zu (len %d): exception: %s", in->next, ns, e.what());
            }
            const int64_t want = in->proc->expect_out(ns);
            if (in->error.empty() && want >= 0) {
                const int64_t gotn = int64_t((in->ch[0].size() - before) / size_t(in->proc->out_width));
                if (gotn != want && in->len_ok) {
                    in->len_ok = false;
                    in->len_msg = fmt("frame %zu (len %d): %lld output samples, documented %lld", in->next, ns, static_cast<long long>(gotn),
                                      static_cast<long long>(want));
                }
            }
            in->pos += size_t(ns);
            ++in->next;
            sim::op_boundary();
            if (p_churn > 0 && r.chance(p_churn)) {
                try {
                    churn(r.seed32());
                } catch (const std::exception&) {
                }
                ++churns[size_t(me)];
                sim::op_boundary();
            }
        }
    });
    st.collect(res);
    for (const auto& e : st.errors) {
        if (!e.empty()) {
            res.fail("C06:harness-exception", e);
        }
    }

    // oracle: a fresh instance of the same class, one call on the whole stream
    for (size_t k = 0; k < inst.size(); ++k) {
        Inst& in = inst[k];
        const char* name = proc_name(in.spec.kind);
        if (!in.proc && in.error.empty()) {
            continue;   // never reached (its thread ended early)
        }
        if (!in.error.empty()) {
            if (in.error.rfind("construct:", 0) == 0) {
                res.invalid = true;   // parameters outside the constructor's contract (shrunk plans only)
                continue;
            }
            res.fail(std::string("C06:exception:") + name, std::string(name) + " " + in.error);
            continue;
        }
        set_cur_opf("C06 reference %s", name);
        std::vector<std::vector<double>> ref(size_t(in.proc->nch));
        try {
            auto fresh = make_proc(in.spec);
            fresh->call(in.input.data(), int(in.n) * fresh->granule, ref);
        } catch (const std::exception& e) {
            res.invalid = true;
            continue;
        }
        for (size_t c = 0; c < ref.size(); ++c) {
            const Cmp cmp = compare_stream_local(in.ch[c], ref[c], 1e-9, size_t(4 * in.proc->memory + 64) * size_t((c == 0) ? in.proc->out_width : in.proc->ch1_width));
            res.digest.bytes(in.ch[c].data(), in.ch[c].size() * sizeof(double));
            if (!cmp.ok) {
                const size_t w = size_t((c == 0) ? in.proc->out_width : in.proc->ch1_width);
                res.fail(std::string("C06:mismatch:") + name,
                         fmt("%s inst#%zu channel %zu output sample %zu: %s; stream %lld granules x %d, %zu frames (style %d)", name, k, c, cmp.at / w,
                             cmp.what.c_str(), static_cast<long long>(in.n), in.proc->granule, in.frames.size(), in.fstyle));
            }
        }
        if (in.fork) {
            for (size_t c = 0; c < ref.size(); ++c) {
                const Cmp cmp = compare_stream_local(in.fork_ch[c], ref[c], 1e-9, size_t(4 * in.proc->memory + 64) * size_t((c == 0) ? in.proc->out_width : in.proc->ch1_width));
                if (!cmp.ok) {
                    const size_t w = size_t((c == 0) ? in.proc->out_width : in.proc->ch1_width);
                    res.fail(std::string("C06:copy-mismatch:") + name,
                             fmt("%s inst#%zu channel %zu output sample %zu: a COPY made before frame %lld and continued alongside the original deviates: %s", name, k, c, cmp.at / w,
                                 static_cast<long long>(in.copy_at), cmp.what.c_str()));
                }
            }
        }
        res.inc("fault.copied_mid_stream", in.copies);
        res.inc("fault.move_constructed_mid_stream", in.moved);
        res.inc("fault.copy_assigned_over_used_object_mid_stream", in.assigned);
        res.inc("fault.rejected_call_mid_stream", in.rejected);
        if (!in.len_ok) {
            res.fail(std::string("C06:framelen:") + name, std::string(name) + " " + in.len_msg);
        }
        if (in.fstyle == FS_ALLMASKS && in.n <= 12 && res.ok) {
            // every composition of this short stream, each on a fresh instance of the same class
            set_cur_opf("C06 all compositions %s n=%lld", name, static_cast<long long>(in.n));
            const int64_t nmask = int64_t(1) << (in.n - 1);
            for (int64_t mask = 0; mask < nmask && res.ok; ++mask) {
                const auto fr = make_framing(FS_BITMASK, 1, in.n, mask, 1, 1);
                std::vector<std::vector<double>> ch(ref.size());
                try {
                    auto p2 = make_proc(in.spec);
                    size_t pos = 0;
                    for (int f : fr) {
                        const int ns = f * p2->granule;
                        p2->call(in.input.data() + pos * size_t(p2->in_width), ns, ch);
                        pos += size_t(ns);
                    }
                } catch (const std::exception& e) {
                    res.fail(std::string("C06:exception:") + name, fmt("%s composition mask %lld of %lld granules: exception: %s", name, static_cast<long long>(mask),
                                                                       static_cast<long long>(in.n), e.what()));
                    break;
                }
                for (size_t c = 0; c < ref.size(); ++c) {
                    const Cmp cmp = compare_stream_local(ch[c], ref[c], 1e-9, size_t(4 * in.proc->memory + 64) * size_t((c == 0) ? in.proc->out_width : in.proc->ch1_width));
                    if (!cmp.ok) {
                        res.fail(std::string("C06:mismatch:") + name, fmt("%s channel %zu: composition mask %lld of a %lld-granule stream (%zu frames): element %zu: %s", name, c,
                                                                          static_cast<long long>(mask), static_cast<long long>(in.n), fr.size(), cmp.at, cmp.what.c_str()));
                        break;
                    }
                }
                res.inc("sim.compositions_enumerated");
                res.inc("fault.segment", int64_t(fr.size()) - 1);
            }
            res.inc("probe.all_compositions_of_short_stream");
        }
        // coverage accounting
        const int mem_g = std::max(1, in.proc->memory / in.proc->granule);
        bool lt_mem = false;
        bool single = false;
        bool multi_block = false;
        for (int f : in.frames) {
            lt_mem |= (f < mem_g);
            single |= (f == 1);
            multi_block |= (in.proc->block > 0 && int64_t(f) * in.proc->granule >= 2 * int64_t(in.proc->block));
        }
        const int64_t nsamp = in.n * in.proc->granule;
        res.inc("fault.segment", int64_t(in.frames.size()) - 1);
        res.inc("sim.samples", nsamp);
        res.inc("sim.streams");
        res.inc(std::string("kind.") + name);
        res.inc("probe.frame_shorter_than_memory", lt_mem);
        res.inc("probe.single_sample_frame", single);
        res.inc("probe.frame_spans_2_blocks", multi_block);
        res.inc("probe.internal_counter_wrapped", in.proc->block > 0 && nsamp > in.proc->block);
        if (in.frames.size() > 1) {
            int lb = 0;
            for (int m = mem_g; m > 1; m >>= 1) {
                ++lb;
            }
            Hash h;
            h.u64(uint64_t(in.spec.kind));
            h.u64(uint64_t(lb));
            h.u64(uint64_t(in.fstyle));
            h.u64(uint64_t(lt_mem) | uint64_t(single) << 1 | uint64_t(multi_block) << 2);
            h.u64(uint64_t(in.fstyle == FS_BITMASK ? in.fparam * 16 + in.n : 0));
            res.sigs.push_back(h.h);
        }
    }
    int64_t nch = 0;
    for (auto c : churns) {
        nch += c;
    }
    res.inc("fault.churn", nch);
    int64_t nlate = 0;
    for (auto c : late_constructions) {
        nlate += c;
    }
    res.inc("probe.instance_constructed_while_others_have_state", nlate);
    res.inc("sim.threads", nthr);
    if (res.invalid) {
        res.ok = true;
        res.vclass.clear();
    }
    const Inst& i0 = inst[0];
    res.sample = fmt("%zu instances on %d threads; first: %s n=%lld granules, %zu frames (style %d), churn=%lld", inst.size(), nthr, proc_name(i0.spec.kind),
                     static_cast<long long>(i0.n), i0.frames.size(), i0.fstyle, static_cast<long long>(nch));
    return res;
}

EngineReg reg({"C06", gen, exec, "framing invariance of stream processors under a simulated transport"});

}   // namespace
}   // namespace vf
