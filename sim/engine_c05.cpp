// C05 — no call corrupts memory or hangs; misuse is reported by exception.
// Faults are injected INTO otherwise valid call programs on live objects: one call gets a length/index
// relation outside the callee's contract ("misuse"), or from_file() meets an stdio fault from the
// simulated file layer.  Time is the edge clock: every op has a budget in executed basic-block edges.
// Oracle: every op returns or throws a C++ exception; no ASan/UBSan report, no signal, no
// std::terminate, no budget overrun.  Results are not compared with anything.
#include "procs.h"
#include "simio.h"
#include "simrun.h"

#include <dsplib/gccphat.h>

namespace vf {
namespace {

constexpr int NPOOL = 4;

// length relation of a misuse op relative to the expected length n
int64_t rel_len(int64_t n, int rel) {
    switch (rel) {
    case 1:
        return 0;
    case 2:
        return 1;
    case 3:
        return 2;
    case 4:
        return 3;
    case 5:
        return n - 1;
    case 6:
        return n + 1;
    case 7:
        return 2 * n;
    default:
        return n;
    }
}

struct Ctx {
    arr_real R[NPOOL];
    arr_cmplx C[NPOOL];
    std::shared_ptr<dsplib::FftPlan> p_fft;
    std::shared_ptr<dsplib::FftPlanR> p_fftr;
    std::shared_ptr<dsplib::IfftPlan> p_ifft;
    std::shared_ptr<dsplib::IfftPlanR> p_ifftr;
    std::shared_ptr<dsplib::CztPlan> p_czt;
    int plan_kind{-1};
    int plan_n{0};
    std::unique_ptr<Proc> proc;
    ProcSpec proc_spec;
    std::unique_ptr<dsplib::PreambleDetector> det;
    int det_nh{0};
    Result* res{nullptr};
};

arr_real rvec(uint32_t seed, int64_t n) {
    Rng r(mix(seed, 0x52));
    arr_real x(static_cast<int>(n));
    for (int i = 0; i < x.size(); ++i) {
        x[i] = r.normal();
    }
    return x;
}

arr_cmplx cvec(uint32_t seed, int64_t n) {
    Rng r(mix(seed, 0x43));
    arr_cmplx x(static_cast<int>(n));
    for (int i = 0; i < x.size(); ++i) {
        x[i] = cmplx_t{r.normal(), r.normal()};
    }
    return x;
}

volatile double g_sink;
template<class T>
void sink(const dsplib::base_array<T>& a) {
    if (a.size() > 0) {
        if constexpr (std::is_same_v<T, cmplx_t>) {
            g_sink = a[0].re;
        } else {
            g_sink = double(a[0]);
        }
    }
}
void sink(double v) {
    g_sink = v;
}
void sink(cmplx_t v) {
    g_sink = v.re;
}
void sink(const std::vector<bool>& v) {
    g_sink = double(v.size());
}

// index list kinds: 0 valid, 1 contains -1, 2 contains -n, 3 contains n, 4 contains n+2, 5 empty, 6 single valid, 7 all negative
std::vector<int> make_index_list(int kind, int n, uint32_t seed) {
    Rng r(mix(seed, 0x1d));
    std::vector<int> v;
    if (kind == 5) {
        return v;
    }
    const int len = (kind == 6) ? 1 : int(r.range(1, 6));
    for (int i = 0; i < len; ++i) {
        v.push_back(n > 0 ? int(r.below(uint64_t(n))) : 0);
    }
    const size_t pos = size_t(r.below(v.size()));
    switch (kind) {
    case 1:
        v[pos] = -1;
        break;
    case 2:
        v[pos] = -n;
        break;
    case 3:
        v[pos] = n;
        break;
    case 4:
        v[pos] = n + 2;
        break;
    case 7:
        for (auto& x : v) {
            x = -1 - int(r.below(uint64_t(n + 1)));
        }
        break;
    default:
        break;
    }
    return v;
}

template<class T>
void assign_list(dsplib::slice_t<T> s, int count) {
    const T a = T(1), b = T(2), c = T(3), d = T(4), e = T(5), f = T(6), g = T(7), h = T(8);
    switch (count) {
    case 0:
        s = std::initializer_list<T>{};
        break;
    case 1:
        s = {a};
        break;
    case 2:
        s = {a, b};
        break;
    case 3:
        s = {a, b, c};
        break;
    case 4:
        s = {a, b, c, d};
        break;
    case 5:
        s = {a, b, c, d, e};
        break;
    case 6:
        s = {a, b, c, d, e, f};
        break;
    case 7:
        s = {a, b, c, d, e, f, g};
        break;
    default:
        s = {a, b, c, d, e, f, g, h};
        break;
    }
}

//---------------------------------------------------------------------------------------------
// the catalogue.  Every entry: name, cost model (work units for the edge budget), action.
struct OpDef {
    const char* name;
    double (*cost)(const Op&);
    void (*run)(Ctx&, const Op&);
    bool misuse_capable;
};

double c_const(const Op&) {
    return 2000;
}
double c_n0(const Op& op) {
    return 50.0 * double(std::llabs(op.iarg(0))) + 2000;
}
double c_nlog(const Op& op) {
    const double n = double(std::llabs(op.iarg(0))) * 2 + 16;
    return 60.0 * n * std::log2(n) + 4000;
}
double c_n2(const Op& op) {
    const double n = double(std::llabs(op.iarg(0))) + 8;
    return 4.0 * n * n + 4000;
}
double c_nm(const Op& op) {
    return 20.0 * (double(std::llabs(op.iarg(0))) + 64) * (double(std::llabs(op.iarg(1))) + 64) + 20000;
}
double c_sqrt(const Op& op) {
    return 400.0 * std::sqrt(double(uint32_t(op.iarg(0)))) + 4000;
}
double c_primes(const Op& op) {
    const double n = double(uint32_t(op.iarg(0)));
    return 40.0 * n * std::sqrt(n) / std::max(1.0, std::log(n + 2)) + 4000;
}
double c_proc(const Op&) {
    // up to 64 granules of up to 441 samples through the longest default polyphase designs
    return 1.0e6;
}
double c_big(const Op& op) {
    const double n = double(std::llabs(op.iarg(0))) + 4096;
    return 400.0 * n * std::log2(n) + 200000;
}

#define CTX_R(i) c.R[size_t((i) & 3)]
#define CTX_C(i) c.C[size_t((i) & 3)]

// arg 3 != 0: a few samples are NaN / +-Inf (sample VALUES are unconstrained by the contract; only sizes and indices are)
void poison(double* p, int n, int stride, uint32_t seed, int how) {
    if (how == 0 || n == 0) {
        return;
    }
    Rng r(mix(seed, 0xBAD));
    const int cnt = 1 + int(r.below(3));
    for (int k = 0; k < cnt; ++k) {
        const int i = int(r.below(uint64_t(n)));
        p[i * stride] = (how == 1) ? std::nan("") : (how == 2) ? INFINITY : (r.chance(0.5) ? std::nan("") : -INFINITY);
    }
}
void op_mkR(Ctx& c, const Op& op) {
    arr_real& a = CTX_R(op.iarg(1));
    a = rvec(uint32_t(op.iarg(2)), op.iarg(0));
    poison(a.data(), a.size(), 1, uint32_t(op.iarg(2)), int(op.iarg(3)) % 4);
}
void op_mkC(Ctx& c, const Op& op) {
    arr_cmplx& a = CTX_C(op.iarg(1));
    a = cvec(uint32_t(op.iarg(2)), op.iarg(0));
    poison(reinterpret_cast<double*>(a.data()), a.size(), 2, uint32_t(op.iarg(2)), int(op.iarg(3)) % 4);
}
void op_mkneg(Ctx&, const Op& op) {
    // negative sizes only where the declared type is a size: an exception from std::vector is a pass
    const int n = -int(op.iarg(0)) - 1;
    switch (op.iarg(1) % 3) {
    case 0:
        sink(arr_real(n));
        break;
    case 1:
        sink(dsplib::zeros(n));
        break;
    default:
        sink(dsplib::repelem(arr_real{1, 2}, n));
        break;
    }
}

void op_arith(Ctx& c, const Op& op) {
    const int t = int(op.iarg(1));
    const int i = int(op.iarg(2));
    const int j = int(op.iarg(3));
    const int k = int(op.iarg(4));
    if (t == 0) {
        arr_real& a = CTX_R(i);
        const arr_real& b = CTX_R(j);
        switch (k % 8) {
        case 0:
            sink(a + b);
            break;
        case 1:
            sink(a - b);
            break;
        case 2:
            sink(a * b);
            break;
        case 3:
            sink(a / b);
            break;
        case 4:
            a += b;
            break;
        case 5:
            a -= b;
            break;
        case 6:
            a *= b;
            break;
        default:
            a /= b;
            break;
        }
    } else if (t == 1) {
        arr_cmplx& a = CTX_C(i);
        const arr_cmplx& b = CTX_C(j);
        switch (k % 8) {
        case 0:
            sink(a + b);
            break;
        case 1:
            sink(a - b);
            break;
        case 2:
            sink(a * b);
            break;
        case 3:
            sink(a / b);
            break;
        case 4:
            a += b;
            break;
        case 5:
            a -= b;
            break;
        case 6:
            a *= b;
            break;
        default:
            a /= b;
            break;
        }
    } else if (t == 2) {
        const arr_real& a = CTX_R(i);
        const arr_cmplx& b = CTX_C(j);
        switch (k % 4) {
        case 0:
            sink(a + b);
            break;
        case 1:
            sink(a - b);
            break;
        case 2:
            sink(a * b);
            break;
        default:
            sink(a / b);
            break;
        }
    } else {
        arr_cmplx& a = CTX_C(i);
        const arr_real& b = CTX_R(j);
        switch (k % 6) {
        case 0:
            sink(a + b);
            break;
        case 1:
            sink(a - b);
            break;
        case 2:
            sink(a * b);
            break;
        case 3:
            sink(a / b);
            break;
        case 4:
            a += b;
            break;
        default:
            a *= b;
            break;
        }
    }
}

void op_cmp(Ctx& c, const Op& op) {
    const int t = int(op.iarg(1));
    const int i = int(op.iarg(2));
    const int j = int(op.iarg(3));
    const int k = int(op.iarg(4));
    if (t % 2 == 0) {
        const arr_real& a = CTX_R(i);
        const arr_real& b = CTX_R(j);
        sink((k % 4 == 0) ? (a > b) : (k % 4 == 1) ? (a < b) : (k % 4 == 2) ? (a == b) : (a != b));
    } else {
        const arr_cmplx& a = CTX_C(i);
        const arr_cmplx& b = CTX_C(j);
        sink((k % 4 == 0) ? (a > b) : (k % 4 == 1) ? (a < b) : (k % 4 == 2) ? (a == b) : (a != b));
    }
}

void op_idxlist(Ctx& c, const Op& op) {
    const int t = int(op.iarg(1));
    const int i = int(op.iarg(2));
    const int kind = int(op.iarg(3));
    const uint32_t seed = uint32_t(op.iarg(4));
    if (t % 4 == 0) {
        sink(CTX_R(i)[make_index_list(kind, CTX_R(i).size(), seed)]);
    } else if (t % 4 == 1) {
        sink(CTX_C(i)[make_index_list(kind, CTX_C(i).size(), seed)]);
    } else if (t % 4 == 2) {
        sink(CTX_R(i)[dsplib::arr_int(make_index_list(kind, CTX_R(i).size(), seed))]);
    } else {
        sink(CTX_C(i)[dsplib::arr_int(make_index_list(kind, CTX_C(i).size(), seed))]);
    }
}

void op_idxmask(Ctx& c, const Op& op) {
    const int i = int(op.iarg(1));
    const int rel = int(op.iarg(2));
    const int64_t n = rel_len(CTX_R(i).size(), rel);
    std::vector<bool> m(size_t(std::max<int64_t>(n, 0)));
    for (size_t k = 0; k < m.size(); ++k) {
        m[k] = (k % 3 != 0);
    }
    if (op.iarg(3) % 2 == 0) {
        sink(CTX_R(i)[m]);
    } else {
        std::vector<bool> mc(size_t(std::max<int64_t>(rel_len(CTX_C(i).size(), rel), 0)), true);
        sink(CTX_C(i)[mc]);
    }
}

// slice index from a code relative to n: codes cover -n..n+2
int sl_idx(int code, int n) {
    switch (code % 12) {
    case 0:
        return 0;
    case 1:
        return 1;
    case 2:
        return n / 2;
    case 3:
        return n - 1;
    case 4:
        return n;
    case 5:
        return n + 1;
    case 6:
        return n + 2;
    case 7:
        return -1;
    case 8:
        return -n / 2;
    case 9:
        return -n;
    case 10:
        return -n - 1;
    default:
        return 2;
    }
}

int sl_step(int code) {
    static const int s[] = {1, 1, 1, 2, 3, -1, -2, 0, 7, -3};
    return s[size_t(code) % 10];
}

void op_slice_get(Ctx& c, const Op& op) {
    const int i = int(op.iarg(1));
    if (op.iarg(5) % 2 == 0) {
        const arr_real& a = CTX_R(i);
        sink(*a.slice(sl_idx(int(op.iarg(2)), a.size()), sl_idx(int(op.iarg(3)), a.size()), sl_step(int(op.iarg(4)))));
    } else {
        arr_cmplx& a = CTX_C(i);
        sink(*a.slice(sl_idx(int(op.iarg(2)), a.size()), sl_idx(int(op.iarg(3)), a.size()), sl_step(int(op.iarg(4)))));
        sink(arr_cmplx(a.slice(sl_idx(int(op.iarg(2)), a.size()), dsplib::indexing::end, sl_step(int(op.iarg(4))))));
    }
}

void op_slice_set(Ctx& c, const Op& op) {
    // x.slice(a,b,m) = y.slice(d,e,k)   (y may be x itself: overlapping move)
    const int i = int(op.iarg(1));
    const int j = int(op.iarg(2));
    if (op.iarg(10) != 0) {
        // size-consistent form: count elements from start sa (step ma) into start sb (step mb); arg 10 - 1 perturbs the source count
        arr_real& x = CTX_R(i);
        arr_real& y = CTX_R(j);
        const int ma = 1 + int(op.iarg(5)) % 3;
        const int mb = 1 + int(op.iarg(8)) % 3;
        const int maxc = std::min((x.size() + ma - 1) / ma, (y.size() + mb - 1) / mb);
        if (maxc >= 1) {
            const int cnt = 1 + int(op.iarg(3)) % maxc;
            const int cnt_src = int(std::max<int64_t>(rel_len(cnt, int(op.iarg(10)) - 1), 0));
            const int sa = int(uint64_t(op.iarg(4)) % uint64_t(std::max(1, x.size() - (cnt - 1) * ma)));
            const int sb = int(uint64_t(op.iarg(6)) % uint64_t(std::max(1, y.size() - (cnt_src > 0 ? (cnt_src - 1) * mb : 0))));
            const bool neg = (op.iarg(7) % 4 == 0);       // negative stride on the destination
            const bool neg_src = (op.iarg(7) % 3 == 0);   // ... on the source (both negative: a reversed block copied onto a reversed block)
            // a reversed slice of cnt elements with stride m starting at the top element: slice(top, top - cnt*m clipped to 0, -m)
            auto dst_lo = [&](int top, int c2, int m) { return std::max(top - c2 * m, 0); };
            if (neg && neg_src && cnt_src > 0) {
                const int tops = sb + (cnt_src - 1) * mb;
                x.slice(sa + (cnt - 1) * ma, dst_lo(sa + (cnt - 1) * ma, cnt, ma), -ma) = y.slice(tops, dst_lo(tops, cnt_src, mb), -mb);
            } else if (neg) {
                x.slice(sa + (cnt - 1) * ma, dst_lo(sa + (cnt - 1) * ma, cnt, ma), -ma) = y.slice(sb, std::min(sb + cnt_src * mb, y.size()), mb);
            } else if (neg_src && cnt_src > 0) {
                const int tops = sb + (cnt_src - 1) * mb;
                x.slice(sa, std::min(sa + cnt * ma, x.size()), ma) = y.slice(tops, dst_lo(tops, cnt_src, mb), -mb);
            } else {
                x.slice(sa, std::min(sa + cnt * ma, x.size()), ma) = y.slice(sb, std::min(sb + cnt_src * mb, y.size()), mb);
            }
        }
        return;
    }
    if (op.iarg(9) % 2 == 0) {
        arr_real& x = CTX_R(i);
        arr_real& y = CTX_R(j);
        x.slice(sl_idx(int(op.iarg(3)), x.size()), sl_idx(int(op.iarg(4)), x.size()), sl_step(int(op.iarg(5)))) =
          y.slice(sl_idx(int(op.iarg(6)), y.size()), sl_idx(int(op.iarg(7)), y.size()), sl_step(int(op.iarg(8))));
    } else {
        arr_cmplx& x = CTX_C(i);
        const arr_cmplx& y = CTX_C(j);
        x.slice(sl_idx(int(op.iarg(3)), x.size()), sl_idx(int(op.iarg(4)), x.size()), sl_step(int(op.iarg(5)))) =
          y.slice(sl_idx(int(op.iarg(6)), y.size()), sl_idx(int(op.iarg(7)), y.size()), sl_step(int(op.iarg(8))));
    }
}

void op_slice_set_arr(Ctx& c, const Op& op) {
    // slice = array whose length is a relation of the slice's length
    const int i = int(op.iarg(1));
    arr_real& x = CTX_R(i);
    const int a = sl_idx(int(op.iarg(2)), x.size());
    const int b = sl_idx(int(op.iarg(3)), x.size());
    const int m = sl_step(int(op.iarg(4)));
    auto s = x.slice(a, b, m);
    const int64_t want = rel_len(s.size(), int(op.iarg(5)));
    if (op.iarg(6) % 3 == 0) {
        s = rvec(7, std::max<int64_t>(want, 0));
    } else if (op.iarg(6) % 3 == 1) {
        s = 3.25;
    } else {
        s = x;   // the array itself
    }
}

void op_slice_set_list(Ctx& c, const Op& op) {
    const int i = int(op.iarg(1));
    if (op.iarg(6) % 2 == 0) {
        arr_real& x = CTX_R(i);
        auto s = x.slice(sl_idx(int(op.iarg(2)), x.size()), sl_idx(int(op.iarg(3)), x.size()), sl_step(int(op.iarg(4))));
        assign_list<real_t>(s, int(rel_len(s.size(), int(op.iarg(5))) % 9));
    } else {
        arr_cmplx& x = CTX_C(i);
        auto s = x.slice(sl_idx(int(op.iarg(2)), x.size()), sl_idx(int(op.iarg(3)), x.size()), sl_step(int(op.iarg(4))));
        assign_list<cmplx_t>(s, int(rel_len(s.size(), int(op.iarg(5))) % 9));
    }
}

void op_util(Ctx& c, const Op& op) {
    const int i = int(op.iarg(1));
    const arr_real& x = CTX_R(i);
    const arr_cmplx& z = CTX_C(i);
    const int n = x.size();
    const int k = int(op.iarg(2));
    const int v = int(rel_len(n, int(op.iarg(3))));
    switch (k % 18) {
    case 0:
        sink(dsplib::zeropad(x, v));
        break;
    case 1:
        sink(dsplib::zeropad(z, int(rel_len(z.size(), int(op.iarg(3))))));
        break;
    case 2:
        sink(dsplib::repelem(x, int(op.iarg(3)) % 5));
        break;
    case 3:
        sink(dsplib::flip(z));
        break;
    case 4:
        sink(dsplib::delayseq(x, v - n + int(op.iarg(3)) - 3));
        break;
    case 5:
        sink(dsplib::delayseq(x, -v));
        break;
    case 6:
        sink(dsplib::downsample(x, 1 + int(op.iarg(3)) % 4, int(op.iarg(4)) % 5));
        break;
    case 7:
        sink(dsplib::upsample(z, 1 + int(op.iarg(3)) % 4, int(op.iarg(4)) % 5));
        break;
    case 8:
        sink(dsplib::concatenate(x, CTX_R(i + 1), CTX_R(i + 2)));
        break;
    case 9:
        sink(x | z);
        {
            // an array concatenated / combined with ITSELF (aliasing operands)
            arr_real a = x;
            a |= a;
            a += a;
            a *= a;
            sink(a | a);
            arr_cmplx b = z;
            b |= b;
            b -= b;
            sink(b);
        }
        break;
    case 10:
        sink(dsplib::linspace(0, 1, size_t(1 + op.iarg(3))));
        break;
    case 11:
        sink(dsplib::arange(int(op.iarg(3)) - 2, n, 1 + int(op.iarg(4)) % 3));
        break;
    case 12:
        sink(dsplib::complex(x, CTX_R(i + 1)));
        break;
    case 13:
        sink(dsplib::power(x, CTX_R(i + 1)));
        break;
    case 14:
        sink(dsplib::power(z, CTX_R(i + 1)));
        break;
    case 15:
        sink(dsplib::to_complex(x.to_vec()));
        break;
    case 16:
        sink(dsplib::from_real<float>(x).size() ? 1.0 : 0.0);   // (to integer T only representable values are in contract)
        break;
    default:
        sink(dsplib::cumsum(z, (op.iarg(3) % 2) ? dsplib::Direction::Reverse : dsplib::Direction::Forward));
        break;
    }
}

void op_reduce(Ctx& c, const Op& op) {
    // reductions and element-wise maps: arrays non-empty (emptiness is exercised on container ops)
    const int i = int(op.iarg(1));
    const arr_real& x = CTX_R(i);
    const arr_cmplx& z = CTX_C(i);
    const arr_real& y = CTX_R(i + 1);
    if (x.empty() || z.empty() || y.empty()) {
        return;
    }
    switch (op.iarg(2) % 26) {
    case 0:
        sink(dsplib::max(x));
        sink(dsplib::min(z));
        break;
    case 1:
        sink(double(dsplib::argmax(x) + dsplib::argmin(z)));
        break;
    case 2:
        sink(dsplib::sum(x));
        sink(dsplib::mean(z));
        break;
    case 3:
        sink(dsplib::median(x));
        break;
    case 4:
        sink(dsplib::rms(x) + dsplib::rms(z));
        break;
    case 5:
        sink(dsplib::stddev(x) + dsplib::stddev(z));
        break;
    case 6:
        sink(dsplib::norm(x, 1 + int(op.iarg(3)) % 4) + dsplib::norm(z, 1 + int(op.iarg(3)) % 4));
        break;
    case 7:
        sink(dsplib::peak2peak(x));
        sink(dsplib::peak2peak(z));
        break;
    case 8:
        sink(dsplib::sort(x, (op.iarg(3) % 2) ? dsplib::Direction::Descend : dsplib::Direction::Ascend).first);
        break;
    case 9:
        sink(dsplib::dot(x, y));
        break;
    case 10:
        sink(dsplib::dot(z, CTX_C(i + 1)));
        break;
    case 11:
        sink(dsplib::corr(x, y, dsplib::Correlation(int(op.iarg(3)) % 3)));
        break;
    case 12:
        sink(dsplib::mse(x, y));
        break;
    case 13:
        sink(dsplib::nmse(z, CTX_C(i + 1)));
        break;
    case 14:
        sink(dsplib::exp(x));
        sink(dsplib::log(dsplib::abs(z)));
        break;
    case 15:
        sink(dsplib::angle(z));
        sink(dsplib::tanh(z));
        break;
    case 16:
        sink(dsplib::power(z, int(op.iarg(3)) % 5 - 1));
        sink(dsplib::power(2.0, x));
        break;
    case 17:
        sink(dsplib::round(z));
        sink(dsplib::abs2(z));
        break;
    case 18:
        sink(dsplib::mag2db(dsplib::abs(x)));
        sink(dsplib::db2pow(x));
        break;
    case 19:
        sink(double(dsplib::anynan(x)) + double(dsplib::anyinf(z)));
        break;
    case 20:
        sink(dsplib::issorted(x) ? 1.0 : 0.0);
        break;
    case 21:
        sink(dsplib::conj(z));
        sink(dsplib::real(z) + dsplib::imag(z));
        break;
    case 22:
        sink(x.apply([](real_t v) { return v * 2; }));
        sink(z.apply([](cmplx_t v) { return v.re; }));
        break;
    case 23:
        sink(-x);
        sink(2.0 - z);
        sink(1.0 / x);
        break;
    case 24:
        sink(dsplib::peakloc(x, int(uint64_t(op.iarg(3)) % uint64_t(x.size())), op.iarg(4) % 2 == 0));
        sink(dsplib::peakloc(z, int(uint64_t(op.iarg(3)) % uint64_t(z.size())), op.iarg(4) % 2 == 0));
        break;
    default:
        sink(x[int(uint64_t(op.iarg(3)) % uint64_t(x.size()))]);
        sink(x(-1 - int(uint64_t(op.iarg(3)) % uint64_t(x.size()))));
        break;
    }
}

void op_fft(Ctx& c, const Op& op) {
    const int i = int(op.iarg(1));
    const arr_real& x = CTX_R(i);
    const arr_cmplx& z = CTX_C(i);
    const int nn = int(rel_len(z.size(), int(op.iarg(3))));
    switch (op.iarg(2) % 11) {
    case 0:
        sink(dsplib::fft(z));
        break;
    case 1:
        sink(dsplib::fft(x));
        break;
    case 2:
        sink(dsplib::fft(z, nn));
        break;
    case 3:
        sink(dsplib::rfft(x, int(rel_len(x.size(), int(op.iarg(3))))));
        break;
    case 4:
        sink(dsplib::ifft(z));
        break;
    case 5:
        sink(dsplib::irfft(z));
        break;
    case 6:
        sink(dsplib::irfft(z, nn));
        break;
    case 7:
        if (z.size() >= 2) {   // one-sided form: n/2+1 input bins for an n-point output (sizes >= 1 only)
            sink(dsplib::irfft(z, 2 * (z.size() - 1)));
        }
        break;
    case 8:
        sink(dsplib::hilbert(x));
        break;
    case 9:
        sink(dsplib::hilbert(x, int(rel_len(x.size(), int(op.iarg(3))))));
        break;
    default:
        // a burst of inverse real transforms of other sizes (whatever per-thread tables exist get recycled)
        for (int n2 : {6, 8, 10, 12, 16, 20, 24, 34}) {
            sink(dsplib::irfft(cvec(uint32_t(n2), n2)));
        }
        break;
    }
}

void op_mkplan(Ctx& c, const Op& op) {
    const int n = int(op.iarg(0));
    const int kind = int(op.iarg(1)) % 5;
    c.plan_kind = -1;
    switch (kind) {
    case 0:
        c.p_fft = std::make_shared<dsplib::FftPlan>(n);
        break;
    case 1:
        c.p_fftr = std::make_shared<dsplib::FftPlanR>(n);
        break;
    case 2:
        c.p_ifft = std::make_shared<dsplib::IfftPlan>(n);
        break;
    case 3:
        c.p_ifftr = std::make_shared<dsplib::IfftPlanR>(n);
        break;
    default: {
        const int m = 1 + int(op.iarg(2)) % 64;
        c.p_czt = std::make_shared<dsplib::CztPlan>(n, m, dsplib::expj(-2 * dsplib::pi / m), (op.iarg(3) % 2) ? cmplx_t{1, 0} : cmplx_t{0.9, 0.1});
        break;
    }
    }
    c.plan_kind = kind;
    c.plan_n = n;
}

void op_solve(Ctx& c, const Op& op) {
    if (c.plan_kind < 0) {
        return;
    }
    const int rel = int(op.iarg(1));
    const int64_t len = std::max<int64_t>(rel_len(c.plan_n, rel), 0);
    const uint32_t seed = uint32_t(op.iarg(2));
    const bool raw = (op.iarg(3) % 3 == 0);   // raw-pointer entry point: buffers are as long as the n passed, but n != plan size
    switch (c.plan_kind) {
    case 0:
        if (raw) {
            const arr_cmplx x = cvec(seed, len);
            arr_cmplx y(static_cast<int>(len));
            const dsplib::BaseFftPlanC& b = *c.p_fft;
            b.solve(x.data(), y.data(), int(len));
            sink(y);
        } else {
            sink(c.p_fft->solve(cvec(seed, len)));
        }
        break;
    case 1:
        if (raw) {
            const arr_real x = rvec(seed, len);
            arr_cmplx y(static_cast<int>(len));
            const dsplib::BaseFftPlanR& b = *c.p_fftr;
            b.solve(x.data(), y.data(), int(len));
            sink(y);
        } else {
            sink((*c.p_fftr)(rvec(seed, len)));
        }
        break;
    case 2:
        sink(c.p_ifft->solve(cvec(seed, len)));
        break;
    case 3:
        sink(c.p_ifftr->solve(cvec(seed, (op.iarg(3) % 2) ? len : len / 2 + 1)));
        break;
    default:
        if (raw) {
            const arr_cmplx x = cvec(seed, len);
            arr_cmplx y(static_cast<int>(std::max<int64_t>(len, 64)));
            const dsplib::BaseFftPlanC& b = *c.p_czt;
            b.solve(x.data(), y.data(), int(len));
            sink(y);
        } else {
            sink(c.p_czt->solve(cvec(seed, len)));
        }
        break;
    }
}

void op_czt(Ctx& c, const Op& op) {
    const arr_cmplx& z = CTX_C(op.iarg(1));
    const int m = 1 + int(op.iarg(2)) % 100;
    sink(dsplib::czt(z, m, dsplib::expj(-2 * dsplib::pi / (1 + int(op.iarg(3)) % 50))));
}

void op_mkproc(Ctx& c, const Op& op) {
    Rng r(mix(uint64_t(op.iarg(1)), 0x9c));
    c.proc.reset();
    c.proc_spec = gen_proc_spec(r, int(op.iarg(0)) % PK_COUNT, false);
    c.proc = make_proc(c.proc_spec);
}

void op_procframe(Ctx& c, const Op& op) {
    if (!c.proc) {
        return;
    }
    Proc& p = *c.proc;
    // frame length: a multiple of the granule (valid), or a relation that breaks it / is empty
    const int rel = int(op.iarg(1));
    const int64_t base = (1 + op.iarg(0) % 64) * p.granule;
    const int64_t n = std::max<int64_t>(rel_len(base, rel), 0);
    Rng r(mix(uint64_t(op.iarg(2)), 0xf7));
    std::vector<double> x(size_t(n) * size_t(p.in_width) + 8);
    for (auto& v : x) {
        v = r.normal();
    }
    poison(x.data(), int(x.size()), 1, uint32_t(op.iarg(2)), int(op.iarg(3)) % 4);
    std::vector<std::vector<double>> ch(static_cast<size_t>(p.nch));
    p.call(x.data(), int(n), ch);
}

void op_adapt_mismatch(Ctx&, const Op& op) {
    // x and d of different lengths
    const int n = 1 + int(op.iarg(0)) % 40;
    const int m = int(std::max<int64_t>(rel_len(n, int(op.iarg(1))), 0));
    const int len = 2 + int(op.iarg(2)) % 8;
    if (op.iarg(3) % 2 == 0) {
        dsplib::LmsFilterR f(len, 0.01, (op.iarg(3) % 4 < 2) ? dsplib::LmsType::LMS : dsplib::LmsType::NLMS);
        sink(f.process(rvec(1, n), rvec(2, m)).y);
    } else {
        dsplib::RlsFilterC f(len, 0.99, 1.0);
        sink(f.process(cvec(1, n), cvec(2, m)).e);
    }
}

void op_fir_misc(Ctx& c, const Op& op) {
    const arr_real& x = CTX_R(op.iarg(1));
    const arr_real& h = CTX_R(op.iarg(1) + 1);
    switch (op.iarg(2) % 8) {
    case 0:
        sink(dsplib::FirFilterR::conv(x, h));
        break;
    case 1: {
        dsplib::FftFilter f;   // default-constructed
        sink(f.process(x));
        break;
    }
    case 2: {
        if (h.size() >= 2) {
            dsplib::FirFilterR f(h);
            sink(f.process(x));
            sink(f(x));
        }
        break;
    }
    case 3:
        sink(double(int(dsplib::firtype(h.empty() ? arr_real{1.0} : h))));
        if (h.size() >= 2) {
            // the impulse response replaced through the public mutable accessor by one of another length, then used
            dsplib::FirFilterR f(h);
            sink(f.process(x));
            f.coeffs() = CTX_R(op.iarg(1) + 2);
            sink(f.process(x));
            sink(f.process(arr_real{1.0, 2.0}));
        }
        break;
    case 4: {
        const int n = 1 + int(op.iarg(3)) % 40;
        const double wn = 0.05 + 0.9 * double(op.iarg(4) % 100) / 100.0;
        sink(dsplib::fir1(n, wn, (op.iarg(4) % 2) ? dsplib::FilterType::Low : dsplib::FilterType::High));
        break;
    }
    case 5: {
        // custom window whose length is a relation of the required n+1
        const int n = 2 + int(op.iarg(3)) % 40;
        const int wl = int(std::max<int64_t>(rel_len(n + 1, int(op.iarg(4))), 0));
        sink(dsplib::fir1(n, 0.3, dsplib::FilterType::Low, dsplib::ones(wl)));
        break;
    }
    case 6: {
        const int n = 2 + int(op.iarg(3)) % 40;
        sink(dsplib::fir1(n, 0.2, 0.6, (op.iarg(4) % 2) ? dsplib::FilterType::Bandpass : dsplib::FilterType::Bandstop));
        break;
    }
    default: {
        dsplib::HilbertFilter f(h);   // arbitrary impulse response: only type-3 responses are accepted
        sink(f.process(x));
        break;
    }
    }
}

void op_window(Ctx&, const Op& op) {
    const int n = int(op.iarg(0));   // sizes >= 1
    const bool sym = op.iarg(2) % 2 == 0;
    switch (op.iarg(1) % 8) {
    case 0:
        sink(dsplib::window::cosine(n, sym));
        break;
    case 1:
        sink(dsplib::window::hann(n, sym));
        break;
    case 2:
        sink(dsplib::window::hamming(n, sym));
        break;
    case 3:
        sink(dsplib::window::blackman(n, sym));
        break;
    case 4:
        sink(dsplib::window::gauss(n, 2.5, sym));
        break;
    case 5:
        sink(dsplib::window::blackmanharris(n, sym));
        break;
    case 6:
        sink(dsplib::window::kaiser(n, double(op.iarg(2) % 40)));
        break;
    default:
        sink(dsplib::window::tukey(n, double(op.iarg(2) % 12) / 10.0));
        break;
    }
}

void op_resample(Ctx& c, const Op& op) {
    const arr_real& x = CTX_R(op.iarg(1));
    const int p = 1 + int(op.iarg(2)) % 12;
    const int q = 1 + int(op.iarg(3)) % 12;
    switch (op.iarg(4) % 5) {
    case 0:
        sink(dsplib::resample(x, p, q));
        break;
    case 1:
        sink(dsplib::resample(x, p, q, detail::positive_h(3, 1 + int(op.iarg(5)) % 80)));
        break;
    case 2:
        sink(dsplib::design_multirate_fir(p, q, 1 + int(op.iarg(5)) % 16, 20.0 + double(op.iarg(5) % 80)));
        break;
    case 3: {
        dsplib::FIRResampler r(p * 1000, q * 1000);
        sink(double(r.next_size(int(op.iarg(5)) % 1000) + r.prev_size(int(op.iarg(5)) % 1000) + r.delay()));
        break;
    }
    default: {
        const auto pp = dsplib::IResampler::polyphase(detail::positive_h(5, 1 + int(op.iarg(5)) % 50), p, 1.0, op.iarg(5) % 2 == 0);
        sink(double(pp.size()));
        break;
    }
    }
}

void op_medfilt(Ctx& c, const Op& op) {
    arr_real x = CTX_R(op.iarg(1));
    const int order = 1 + int(op.iarg(2)) % 12;   // orders below 3 must be rejected by exception
    if (op.iarg(3) % 2 == 0) {
        sink(dsplib::medfilt(x, order));
    } else {
        dsplib::MedianFilter f(order, 0.5);
        sink(f(x));
    }
}

void op_stft(Ctx& c, const Op& op) {
    const arr_real& x = CTX_R(op.iarg(1));
    const int nfft = 1 << (1 + int(op.iarg(2)) % 8);
    const int winlen = int(std::max<int64_t>(rel_len(nfft, int(op.iarg(3))), 1));
    const int overlap = int(uint64_t(op.iarg(4)) % uint64_t(winlen));   // overlap < window length
    const auto range = dsplib::StftRange(int(op.iarg(5)) % 3);
    switch (op.iarg(6) % 4) {
    case 0:
        sink(double(dsplib::stft(x, dsplib::window::hann(winlen, false), overlap, nfft, range).size()));
        break;
    case 1:
        sink(double(dsplib::stft(x, nfft, range).size()));
        break;
    case 2: {
        const auto s = dsplib::stft(x, dsplib::window::hann(winlen, false), overlap, nfft, range);
        if (!s.empty()) {
            sink(dsplib::istft(s, dsplib::window::hann(winlen, false), overlap, nfft, range, (op.iarg(5) % 2) ? dsplib::OverlapMethod::Ola : dsplib::OverlapMethod::Wola));
        }
        break;
    }
    default: {
        // istft on frames whose length is a relation of what the range requires
        const int fl = int(std::max<int64_t>(rel_len(nfft / 2 + 1, int(op.iarg(3))), 1));
        std::vector<arr_cmplx> frames(3, cvec(9, fl));
        sink(dsplib::istft(frames, nfft, range));
        sink(dsplib::iscola(dsplib::window::hann(winlen, false), overlap) ? 1.0 : 0.0);
        break;
    }
    }
}

void op_welch(Ctx& c, const Op& op) {
    const arr_real& x = CTX_R(op.iarg(1));
    const arr_cmplx& z = CTX_C(op.iarg(1));
    const int winlen = 2 + int(op.iarg(2)) % 200;
    const int nfft_ok = 1 << dsplib::nextpow2(winlen);
    // non-power-of-two sizes (also huge ones) must be rejected before anything is allocated
    const int nfft = (op.iarg(3) % 4 == 0) ? nfft_ok + 1 : (op.iarg(3) % 7 == 0) ? 2147483647 - int(op.iarg(4) % 1000) : nfft_ok;
    const int nov = (op.iarg(3) % 5 == 0) ? winlen : int(uint64_t(op.iarg(4)) % uint64_t(winlen));
    switch (op.iarg(5) % 6) {
    case 0:
        sink(dsplib::welch(x, winlen).pxx);
        break;
    case 1:
        sink(dsplib::welch(x, winlen, nov, nfft, dsplib::SpectrumType::Power).pxx);
        break;
    case 2:
        sink(dsplib::welch(z, winlen, nov, nfft).f);
        break;
    case 3:
        sink(dsplib::welch(z, dsplib::window::hann(winlen)).pxx);
        break;
    case 4:
        sink(dsplib::mscohere(x, CTX_R(op.iarg(1) + 1), winlen));
        break;
    default:
        sink(dsplib::mscohere(x, CTX_R(op.iarg(1) + 1), dsplib::window::hamming(winlen), nov, nfft));
        break;
    }
}

void op_snr(Ctx& c, const Op& op) {
    const arr_real& x = CTX_R(op.iarg(1));
    if (x.empty()) {
        return;
    }
    const int nharm = 2 + int(op.iarg(2)) % 8;
    const bool al = op.iarg(3) % 2 == 0;
    const auto type = dsplib::SinadType(int(op.iarg(4)) % 3);
    const arr_real px = (type == dsplib::SinadType::Time) ? x : dsplib::abs2(x);
    switch (op.iarg(5) % 3) {
    case 0:
        sink(dsplib::sinad(px, type));
        break;
    case 1:
        sink(dsplib::thd(px, nharm, al, type).value);
        break;
    default:
        sink(dsplib::snr(px, nharm, al, type));
        break;
    }
}

void op_corr(Ctx& c, const Op& op) {
    const arr_real& x = CTX_R(op.iarg(1));
    const arr_real& y = CTX_R(op.iarg(1) + 1);
    const arr_cmplx& z = CTX_C(op.iarg(1));
    if (x.empty() || y.empty() || z.empty()) {
        return;
    }
    switch (op.iarg(2) % 7) {
    case 0:
        sink(dsplib::xcorr(x, y));
        break;
    case 1:
        sink(dsplib::xcorr(z));
        break;
    case 2:
        sink(double(dsplib::finddelay(x, y)));
        break;
    case 3:
        sink(double(dsplib::finddelay(z, CTX_C(op.iarg(1) + 1).empty() ? z : CTX_C(op.iarg(1) + 1))));
        break;
    case 4:
        sink(dsplib::gccphat(x, y, 1 + int(op.iarg(3)) % 48000).tau);
        break;
    case 5: {
        std::vector<arr_real> chs{x, y, x};
        sink(dsplib::gccphat(chs, x, 8000).tau);
        break;
    }
    default: {
        const auto pk = dsplib::findpeaks(x, 1 + int(op.iarg(3)) % 12);
        sink(double(pk.locs.size()));
        break;
    }
    }
}

void op_random(Ctx& c, const Op& op) {
    const int n = int(op.iarg(0));   // may be 0
    switch (op.iarg(1) % 7) {
    case 0:
        sink(dsplib::randn(n));
        break;
    case 1:
        sink(dsplib::rand(n));
        break;
    case 2: {
        const auto v = dsplib::randi({-3, 3}, n);
        sink(double(v.size()));
        break;
    }
    case 3:
        dsplib::rng(int(op.iarg(2)));
        break;
    case 4:
        sink(dsplib::awgn(CTX_R(op.iarg(2)), double(op.iarg(3) % 60)));
        break;
    case 5:
        sink(dsplib::awgn(CTX_C(op.iarg(2)), double(op.iarg(3) % 60)));
        break;
    default:
        sink(dsplib::rand({-1.0, 1.0}, n));
        break;
    }
}

void op_print(Ctx& c, const Op& op) {
    // stream output of arrays and scalars (public operator<<), including empty arrays
    std::ostringstream os;
    switch (op.iarg(2) % 4) {
    case 0:
        os << CTX_R(op.iarg(1));
        break;
    case 1:
        os << CTX_C(op.iarg(1));
        break;
    case 2:
        os << cmplx_t{1.5, -2.0} << arr_real{} << arr_cmplx{};
        break;
    default:
        os << arr_real(int(op.iarg(3) % 3)) << dsplib::arr_cmplx(int(op.iarg(3) % 2));
        break;
    }
    sink(double(os.str().size()));
}

void op_misc2(Ctx& c, const Op& op) {
    const arr_real& x = CTX_R(op.iarg(1));
    const arr_cmplx& z = CTX_C(op.iarg(1));
    switch (op.iarg(2) % 12) {
    case 0:
        sink(dsplib::linspace(-1, 1, size_t(op.iarg(3) % 5)));   // n = 0 must be rejected
        break;
    case 1:
        sink(double(dsplib::from_complex<float>(z).size()));
        break;
    case 2:
        sink(dsplib::to_real(x.to_vec()));
        break;
    case 3:
        sink(dsplib::arange(0.0, double(op.iarg(3) % 20) - 5.0, 0.5));
        break;
    case 4: {
        dsplib::Agc a(1.0, 30.0, int(op.iarg(3) % 4) - 1);   // average_len <= 0 must be rejected
        sink(a.process(x).out);
        break;
    }
    case 5: {
        dsplib::HilbertFilter f(3 + int(op.iarg(3) % 200), 0.005 + 0.001 * double(op.iarg(4) % 90));
        sink(f.process(x));
        break;
    }
    case 6:
        sink(dsplib::HilbertFilter::design_fir(3 + int(op.iarg(3) % 100), 1.0, 0.01 + 0.001 * double(op.iarg(4) % 90)));
        break;
    case 7: {
        dsplib::FIRResampler r(1 + int(op.iarg(3) % 20), 1 + int(op.iarg(4) % 20));
        const int g = r.decim_rate();
        sink(r.process(rvec(3, int64_t(g) * (op.iarg(3) % 5))));
        sink(r.process(rvec(4, int64_t(g) * 2 + (op.iarg(5) % 2))));   // possibly not a multiple of the granule
        break;
    }
    case 8:
        sink(dsplib::awgn(x, double(op.iarg(3) % 100) - 20));
        sink(dsplib::awgn(z, double(op.iarg(3) % 100) - 20));
        break;
    case 9: {
        arr_real y = x;
        sink(dsplib::medfilt(y, 3 + int(op.iarg(3) % 30)));
        break;
    }
    case 10: {
        dsplib::MedianFilter f(3 + int(op.iarg(3) % 30));
        sink(f(x));
        sink(f(arr_real{}));
        break;
    }
    default: {
        dsplib::FftFilter f(z.empty() ? arr_cmplx{cmplx_t{1, 0}} : z);
        sink(f(z));
        sink(f(x));
        break;
    }
    }
}

void op_isprime(Ctx&, const Op& op) {
    sink(dsplib::isprime(uint32_t(op.iarg(0))) ? 1.0 : 0.0);
}
void op_factor(Ctx&, const Op& op) {
    sink(double(dsplib::factor(uint32_t(op.iarg(0))).size()));
}
void op_nextprime(Ctx&, const Op& op) {
    sink(double(dsplib::nextprime(uint32_t(op.iarg(0)))));
}
void op_primes(Ctx&, const Op& op) {
    sink(double(dsplib::primes(uint32_t(op.iarg(0))).size()));
}
void op_pow2(Ctx&, const Op& op) {
    sink(double(dsplib::nextpow2(int(op.iarg(0))) + int(dsplib::ispow2(int(op.iarg(0))))));
}

void op_fromfile(Ctx& c, const Op& op) {
    // args: nbytes fault dtype endian offset count seed
    const int64_t nbytes = op.iarg(0);
    const int fault = int(op.iarg(1));
    simio::FilePlan fp;
    Rng r(mix(uint64_t(op.iarg(6)), 0xf11e));
    fp.data.resize(size_t(std::max<int64_t>(nbytes, 0)));
    for (auto& b : fp.data) {
        b = uint8_t(r.next());
    }
    const char* path = "/simfs/data.bin";
    switch (fault) {
    case 1:
        fp.open_fails = true;
        break;
    case 2:
        fp.seek_fails = true;
        break;
    case 3:
        fp.hard_error_at = int64_t(r.below(uint64_t(nbytes + 1)));
        break;
    case 4:
        fp.transient_error_at = int64_t(r.below(uint64_t(nbytes + 1)));
        break;
    case 5:
        fp.is_directory = true;
        break;
    case 6:
        path = "/simfs/missing.bin";
        break;
    default:
        break;   // 0: none; short files / EOF inside an element / offset past EOF come from nbytes, offset, dtype
    }
    simio::install("/simfs/data.bin", fp);
    const auto type = dsplib::dtype(int(op.iarg(2)) % 4);
    const auto order = (op.iarg(3) % 2) ? dsplib::endian::big : dsplib::endian::little;
    const long offset = long(op.iarg(4));
    const long count = (op.iarg(5) < 0) ? std::numeric_limits<long>::max() : long(op.iarg(5));
    const auto before = simio::counters();
    try {
        sink(dsplib::from_file(path, type, order, offset, count));
    } catch (...) {
        const auto after = simio::counters();
        c.res->inc("fault.stdio_open_failure", after.open_failures - before.open_failures);
        throw;
    }
    const auto after = simio::counters();
    c.res->inc("fault.stdio_open_failure", after.open_failures - before.open_failures);
    c.res->inc("fault.stdio_seek_failure", after.seek_failures - before.seek_failures);
    c.res->inc("fault.stdio_read_error", after.read_errors - before.read_errors);
    c.res->inc("fault.stdio_transient_read_error", after.transient_errors - before.transient_errors);
    c.res->inc("fault.stdio_eof_inside_element", after.short_reads - before.short_reads);
    c.res->inc("fault.stdio_offset_past_eof", (offset > nbytes) ? 1 : 0);
}

void op_detector(Ctx& c, const Op& op) {
    if (op.iarg(3) % 3 == 0 || !c.det) {
        const int nh = 1 + int(op.iarg(0)) % 80;
        c.det = std::make_unique<dsplib::PreambleDetector>(cvec(uint32_t(op.iarg(2)), nh), 0.5);
        c.det_nh = nh;
    }
    const int fl = c.det->frame_len();
    const int64_t n = std::max<int64_t>(rel_len(int64_t(fl) * (1 + op.iarg(1) % 3), int(op.iarg(4))), 0);
    const auto r = c.det->process(cvec(uint32_t(op.iarg(2)) + 1, n));
    sink(r.has_value() ? r->score : 0.0);
    if (op.iarg(3) % 5 == 0) {
        c.det->reset();
    }
}

void op_tuner_misc(Ctx& c, const Op& op) {
    const int fs = 1 + int(op.iarg(0)) % 50000;
    // arg 1 == 0: a valid frequency; otherwise beyond +-fs/2: the constructor must throw
    const double f = (op.iarg(1) == 0) ? -double(fs / 2) : ((op.iarg(1) % 2) ? 1.0 : -1.0) * (double(fs / 2) + 1.0 + double(op.iarg(1) % 7));
    dsplib::Tuner t(fs, f);
    sink(t(CTX_C(op.iarg(2))));
    dsplib::Delay<real_t> d(1 + int(op.iarg(3)) % 50);
    sink(d(CTX_R(op.iarg(2))));
    dsplib::Agc a(1.0, 60.0, 1 + int(op.iarg(3)) % 100);
    sink(a.process(CTX_R(op.iarg(2))).out);
    sink(a.process(CTX_C(op.iarg(2))).gain);
}

void op_dyn_ctor(Ctx& c, const Op& op) {
    // parameters straddling the documented ranges: out-of-range values must be rejected by exception
    const double thr = -60.0 + double(op.iarg(0) % 70);       // [-60, 9]
    const int ratio = int(op.iarg(1) % 60);                   // [0, 59]
    const double knee = -2.0 + double(op.iarg(2) % 26);       // [-2, 23]
    const double t = -0.5 + double(op.iarg(3) % 100) / 20.0;  // [-0.5, 4.45]
    const arr_real& x = CTX_R(op.iarg(4));
    switch (op.iarg(5) % 3) {
    case 0: {
        dsplib::Compressor p(44100, thr, ratio, knee, t, 0.1);
        sink(p(x).out);
        break;
    }
    case 1: {
        dsplib::Limiter p(48000, thr, knee, t, 0.1);
        sink(p(x).gain);
        break;
    }
    default: {
        dsplib::NoiseGate p(8000, thr, t, 0.01, t);
        sink(p(x).out);
        break;
    }
    }
}

const OpDef CATALOGUE[] = {
  {"mkR", c_n0, op_mkR, false},
  {"mkC", c_n0, op_mkC, false},
  {"mkneg", c_const, op_mkneg, true},
  {"arith", c_n0, op_arith, true},
  {"cmp", c_n0, op_cmp, true},
  {"idxlist", c_n0, op_idxlist, true},
  {"idxmask", c_n0, op_idxmask, true},
  {"slice_get", c_n0, op_slice_get, true},
  {"slice_set", c_n0, op_slice_set, true},
  {"slice_set_arr", c_n0, op_slice_set_arr, true},
  {"slice_set_list", c_n0, op_slice_set_list, true},
  {"util", c_n0, op_util, true},
  {"reduce", c_n2, op_reduce, false},
  {"fft", c_big, op_fft, true},
  {"mkplan", c_big, op_mkplan, false},
  {"solve", c_big, op_solve, true},
  {"czt", c_big, op_czt, false},
  {"mkproc", c_big, op_mkproc, false},
  {"procframe", c_proc, op_procframe, true},
  {"adapt_mismatch", c_nm, op_adapt_mismatch, true},
  {"fir_misc", c_nm, op_fir_misc, true},
  {"window", c_n0, op_window, false},
  {"resample", c_nm, op_resample, false},
  {"medfilt", c_nm, op_medfilt, true},
  {"stft", c_big, op_stft, true},
  {"welch", c_big, op_welch, true},
  {"snr", c_big, op_snr, false},
  {"corr", c_big, op_corr, true},
  {"random", c_n0, op_random, false},
  {"isprime", c_sqrt, op_isprime, false},
  {"factor", c_sqrt, op_factor, false},
  {"nextprime", c_primes, op_nextprime, false},
  {"primes", c_primes, op_primes, false},
  {"pow2", c_const, op_pow2, false},
  {"fromfile", c_n0, op_fromfile, true},
  {"detector", c_big, op_detector, true},
  {"tuner_misc", c_n0, op_tuner_misc, true},
  {"dyn_ctor", c_n0, op_dyn_ctor, true},
  {"print", c_n0, op_print, false},
  {"misc2", c_big, op_misc2, true},
};
constexpr size_t NCAT = sizeof(CATALOGUE) / sizeof(CATALOGUE[0]);

const OpDef* find_op(const std::string& k) {
    for (size_t i = 0; i < NCAT; ++i) {
        if (k == CATALOGUE[i].name) {
            return &CATALOGUE[i];
        }
    }
    return nullptr;
}

uint32_t prime_neighbourhood(Rng& r) {
    // arguments up to 2^32-1, biased to the neighbourhoods where 32-bit d*d arithmetic is at risk
    static const uint64_t centres[] = {65536ull, 16777216ull, 2147483648ull, 4293001441ull /* 65521^2 */, 4294967295ull, 4294967291ull /* largest 32-bit prime */, 4295098369ull};
    const int c = int(r.below(10));
    if (c < 6) {
        const uint64_t ctr = centres[r.below(7)];
        const int64_t v = int64_t(ctr) + r.range(-300, 300);
        return uint32_t(std::min<int64_t>(std::max<int64_t>(v, 0), 4294967295ll));
    }
    if (c < 8) {
        return uint32_t(r.logi(1, 4294967295ll));
    }
    return uint32_t(r.range(0, 1000));
}

int pick_size(Rng& r, bool allow_zero) {
    static const int sizes[] = {1, 2, 3, 4, 5, 7, 8, 9, 12, 15, 16, 17, 24, 31, 32, 41, 43, 47, 60, 64, 97, 100, 101, 120, 127, 128, 211, 255, 256, 257, 500, 512, 1000, 1009, 1024};
    if (allow_zero && r.chance(0.06)) {
        return 0;
    }
    return sizes[r.below(sizeof(sizes) / sizeof(sizes[0]))];
}

Op gen_op(Rng& r, const OpDef& d, bool misuse) {
    Op op;
    op.kind = d.name;
    const std::string k = d.name;
    auto R = [&](int64_t lo, int64_t hi) { return double(r.range(lo, hi)); };
    const double rel = misuse ? double(r.range(1, 7)) : 0.0;
    if (k == "mkR" || k == "mkC") {
        op.a = {double(pick_size(r, true)), R(0, 3), double(r.seed32()), r.chance(0.25) ? R(1, 3) : 0.0};
    } else if (k == "mkneg") {
        op.a = {R(0, 1000), R(0, 2)};
    } else if (k == "arith" || k == "cmp") {
        const int i = int(r.below(4));
        op.a = {0, R(0, 3), double(i), misuse ? double((i + 1 + r.below(3)) % 4) : double(i), R(0, 7)};
    } else if (k == "idxlist") {
        op.a = {0, R(0, 3), R(0, 3), misuse ? double(r.pick(std::vector<double>{1, 2, 3, 4, 5, 7})) : double(r.pick(std::vector<double>{0, 6})), double(r.seed32())};
    } else if (k == "idxmask") {
        op.a = {0, R(0, 3), rel, R(0, 1)};
    } else if (k == "slice_get") {
        op.a = {0, R(0, 3), misuse ? R(0, 11) : R(0, 3), misuse ? R(0, 11) : R(2, 4), misuse ? R(0, 9) : R(0, 4), R(0, 1)};
    } else if (k == "slice_set") {
        // arg 10: 0 = arbitrary index codes; 1 = size-consistent (valid); 2..8 = size-consistent with a perturbed source count (misuse)
        const double mode = misuse ? (r.chance(0.5) ? 0.0 : double(r.range(2, 8))) : (r.chance(0.15) ? 0.0 : 1.0);
        op.a = {0, R(0, 3), R(0, 3), R(0, 1000), R(0, 1000), R(0, 9), R(0, 1000), R(0, 11), R(0, 9), R(0, 1), mode};
    } else if (k == "slice_set_arr") {
        op.a = {0, R(0, 3), R(0, 3), R(2, 4), R(0, 6), rel, R(0, 2)};
    } else if (k == "slice_set_list") {
        op.a = {0, R(0, 3), R(0, 3), R(2, 4), R(0, 6), rel, R(0, 1)};
    } else if (k == "util") {
        op.a = {0, R(0, 3), R(0, 17), misuse ? R(1, 7) : R(0, 0) + (r.chance(0.5) ? 6 : 0), R(0, 9)};
    } else if (k == "reduce") {
        op.a = {0, R(0, 3), R(0, 25), R(0, 1000), R(0, 9)};
    } else if (k == "fft") {
        op.a = {0, R(0, 3), R(0, 10), rel};
    } else if (k == "mkplan") {
        op.a = {double(pick_size(r, false)), R(0, 4), R(0, 63), R(0, 1)};
    } else if (k == "solve") {
        op.a = {0, rel, double(r.seed32()), R(0, 5)};
    } else if (k == "czt") {
        op.a = {0, R(0, 3), R(0, 99), R(0, 49)};
    } else if (k == "mkproc") {
        op.a = {R(0, PK_COUNT - 1), double(r.seed32())};
    } else if (k == "procframe") {
        op.a = {R(0, 63), rel, double(r.seed32()), r.chance(0.2) ? R(1, 3) : 0.0};
    } else if (k == "adapt_mismatch") {
        op.a = {R(0, 39), rel, R(0, 7), R(0, 3)};
    } else if (k == "fir_misc") {
        op.a = {0, R(0, 3), R(0, 7), R(0, 39), misuse ? R(1, 7) : 0.0};
    } else if (k == "window") {
        op.a = {double(pick_size(r, false)), R(0, 7), R(0, 39)};
    } else if (k == "resample") {
        op.a = {0, R(0, 3), R(0, 11), R(0, 11), R(0, 4), R(0, 999)};
    } else if (k == "medfilt") {
        op.a = {0, R(0, 3), misuse ? R(0, 1) : R(2, 11), R(0, 1)};
    } else if (k == "stft") {
        op.a = {0, R(0, 3), R(0, 7), rel, R(0, 1000), R(0, 2), R(0, 3)};
    } else if (k == "welch") {
        op.a = {0, R(0, 3), R(0, 199), misuse ? R(0, 19) : 1.0, R(0, 1000), R(0, 5)};
    } else if (k == "snr") {
        op.a = {0, R(0, 3), R(0, 7), R(0, 1), R(0, 2), R(0, 2)};
    } else if (k == "corr") {
        op.a = {0, R(0, 3), R(0, 6), R(0, 47999)};
    } else if (k == "random") {
        op.a = {double(pick_size(r, true)), R(0, 6), R(0, 3), R(0, 59)};
    } else if (k == "isprime" || k == "factor") {
        op.a = {double(prime_neighbourhood(r))};
    } else if (k == "nextprime" || k == "primes") {
        op.a = {double(r.chance(0.5) ? r.logi(1, 1 << 18) : r.range(0, 300))};
    } else if (k == "pow2") {
        op.a = {double(r.chance(0.3) ? r.range(1073741824ll - 2, 2147483647ll) : r.logi(1, 2147483647ll) - (r.chance(0.2) ? 1 : 0))};   // any int >= 0 is a valid scalar here
    } else if (k == "fromfile") {
        const int64_t nb = r.chance(0.2) ? r.range(0, 5) : r.logi(1, 4000);
        op.a = {double(nb), misuse ? double(r.range(1, 6)) : 0.0, R(0, 3), R(0, 1), double(r.chance(0.7) ? r.range(0, nb) : r.range(-4, nb + 9)),
                double(r.chance(0.5) ? -1 : r.range(0, nb)), double(r.seed32())};
    } else if (k == "detector") {
        op.a = {R(0, 79), R(0, 2), double(r.seed32()), R(0, 14), rel};
    } else if (k == "tuner_misc") {
        op.a = {R(0, 49999), misuse ? R(0, 100000) : 0.0, R(0, 3), R(0, 99)};
    } else if (k == "print") {
        op.a = {0, R(0, 3), R(0, 3), R(0, 5)};
    } else if (k == "misc2") {
        op.a = {0, R(0, 3), R(0, 11), R(0, 999), R(0, 999), R(0, 9)};
    } else if (k == "dyn_ctor") {
        op.a = misuse ? std::vector<double>{R(0, 69), R(0, 59), R(0, 25), R(0, 99), R(0, 3), R(0, 2)} : std::vector<double>{R(10, 60), R(1, 50), R(2, 22), R(10, 90), R(0, 3), R(0, 2)};
    }
    return op;
}

Plan gen(uint64_t seed, const std::string& tier) {
    Rng r(mix(seed, 0xC05));
    Plan pl;
    pl.engine = "C05";
    pl.seed = seed;
    pl.tier = tier;
    // a few arrays first so that the pool is populated (they may be replaced later)
    const int nops = int(r.range(1, 12));
    const bool any_misuse = r.chance(0.8);
    const int misuse_at = any_misuse ? int(r.below(uint64_t(nops))) : -1;
    const bool many_misuse = r.chance(0.33);
    bool keep_using_plan = false;
    for (int i = 0; i < NPOOL; ++i) {
        Op a;
        a.kind = "mkR";
        a.a = {double(pick_size(r, false)), double(i), double(r.seed32()), r.chance(0.08) ? double(r.range(1, 3)) : 0.0};
        pl.ops.push_back(a);
        Op b;
        b.kind = "mkC";
        b.a = {double(pick_size(r, false)), double(i), double(r.seed32()), r.chance(0.08) ? double(r.range(1, 3)) : 0.0};
        pl.ops.push_back(b);
    }
    for (int i = 0; i < nops; ++i) {
        const bool misuse = (i == misuse_at) || (many_misuse && r.chance(0.4));
        const OpDef* d = nullptr;
        for (int tries = 0; tries < 50; ++tries) {
            d = &CATALOGUE[r.below(NCAT)];
            if (!misuse || d->misuse_capable) {
                break;
            }
        }
        pl.ops.push_back(gen_op(r, *d, misuse && d->misuse_capable));
        if (misuse && d->misuse_capable && r.chance(0.25)) {
            pl.ops.push_back(pl.ops.back());   // the same (possibly rejected) call once more, as a retry loop would issue it
        }
        // follow a constructor with a use of the object
        if (std::string(d->name) == "mkplan") {
            pl.ops.push_back(gen_op(r, *find_op("solve"), (i == misuse_at) || r.chance(0.5)));
            keep_using_plan = true;
        } else if (std::string(d->name) == "mkproc") {
            pl.ops.push_back(gen_op(r, *find_op("procframe"), (i == misuse_at) || r.chance(0.3)));
            pl.ops.push_back(gen_op(r, *find_op("procframe"), r.chance(0.3)));
        }
    }
    if (keep_using_plan && r.chance(0.7)) {
        // the kept plan is used again after everything else that happened in between
        if (r.chance(0.5)) {
            Op f = gen_op(r, *find_op("fft"), false);
            f.a[2] = 10;
            pl.ops.push_back(f);
        }
        pl.ops.push_back(gen_op(r, *find_op("solve"), false));
    }
    return pl;
}

Result exec(const Plan& pl) {
    Result res;
    if (pl.ops.empty()) {
        res.invalid = true;
        return res;
    }
    Ctx c;
    c.res = &res;
    simio::clear();
    for (size_t i = 0; i < pl.ops.size(); ++i) {
        const Op& op = pl.ops[i];
        const OpDef* d = find_op(op.kind);
        if (!d || op.a.size() > 16) {
            res.invalid = true;
            return res;
        }
        for (double v : op.a) {
            if (!std::isfinite(v) || std::fabs(v) > 4.4e9) {
                res.invalid = true;
                return res;
            }
        }
    }
    for (size_t i = 0; i < pl.ops.size(); ++i) {
        Op op = pl.ops[i];
        op.a.resize(16, 0.0);
        for (auto& v : op.a) {
            v = std::fabs(v);   // every argument is a non-negative code; signs are produced by the op itself
        }
        if (op.kind == "fromfile") {
            op.a[4] = pl.ops[i].arg(4);   // offset and count may be negative
            op.a[5] = pl.ops[i].arg(5);
        }
        if ((op.kind == "mkR" || op.kind == "mkC" || op.kind == "mkplan" || op.kind == "window" || op.kind == "random") && op.a[0] > 20000) {
            res.invalid = true;
            break;
        }
        if ((op.kind == "nextprime" || op.kind == "primes") && op.a[0] > double(1 << 22)) {
            res.invalid = true;
            break;
        }
        const OpDef* d = find_op(op.kind);
        const double cost = d->cost(op);
        const uint64_t e0 = sim::edges_now();
        // the edge clock: budget = 50 x the calibrated edges per work unit (see DESIGN 2.3), never below 2e6
        // ... and never below 40 N^2 for the largest live array (the documented worst case among the array ops is
        // quadratic: Kendall correlation, direct FIR / polyphase loops over pool arrays)
        double nmax = 64;
        for (int q = 0; q < NPOOL; ++q) {
            nmax = std::max(nmax, double(std::max(c.R[q].size(), c.C[q].size())));
        }
        const uint64_t budget = uint64_t(std::max({2e6, 50.0 * cost, 40.0 * nmax * nmax}));
        set_cur_opf("C05_%s | op %zu of %zu", d->name, i, pl.ops.size());
        sim::set_edge_budget(e0 + budget);
        std::string outcome = "returned";
        try {
            d->run(c, op);
        } catch (const std::exception& e) {
            outcome = "threw";
        }
        sim::clear_edge_budget();
        const uint64_t used = sim::edges_now() - e0;
        {
            // how much of its edge budget the op used (per mille): the margin against false hang alarms
            int64_t& slot = res.ctr[std::string("max_budget_used_permille.") + d->name];
            slot = std::max<int64_t>(slot, int64_t(1000.0 * double(used) / double(budget)));
        }
        res.inc(std::string("op.") + d->name + "." + outcome);
        res.inc("sim.edges", int64_t(used));
        res.inc("sim.ops");
        Hash h;
        h.str(d->name);
        h.str(outcome);
        h.u64(uint64_t(op.iarg(1)) % 8);
        h.u64(uint64_t(op.iarg(2)) % 32);
        h.u64(uint64_t(op.iarg(3)) % 12);
        res.sigs.push_back(h.h);
        res.digest.str(d->name);
        res.digest.str(outcome);
    }
    if (simio::open_handles() > 0) {
        res.inc("probe.file_left_open_after_exception", simio::open_handles());
    }
    simio::clear();
    if (res.invalid) {
        res.ok = true;
    }
    std::string s;
    for (size_t i = 8; i < pl.ops.size() && i < 20; ++i) {
        s += pl.ops[i].kind + " ";
    }
    res.sample = fmt("%zu ops after the pool setup: %s", pl.ops.size() > 8 ? pl.ops.size() - 8 : 0, s.c_str());
    return res;
}

EngineReg reg({"C05", gen, exec, "misuse and stdio faults injected into call programs on live objects, edge-clock budgets, ASan+UBSan"});

}   // namespace
}   // namespace vf
