// Worker process: generates and executes simulated runs.  Protocol lines go to fd 1 unbuffered;
// sanitizer reports arrive on fd 2, which the driver merges into the same pipe.
#include "common.h"
#include "simsched.h"
#include "simrun.h"

#include <atomic>
#include <fstream>
#include <iostream>
#include <csignal>
#include <unistd.h>

#if defined(__has_feature)
#if __has_feature(address_sanitizer)
#define VF_ASAN 1
#endif
#if __has_feature(thread_sanitizer)
#define VF_TSAN 1
#endif
#endif

namespace vf {

static std::vector<Engine>& engines() {
    static std::vector<Engine> v;
    return v;
}

void register_engine(const Engine& e) {
    engines().push_back(e);
}

const Engine* find_engine(const std::string& id) {
    for (const auto& e : engines()) {
        if (id == e.id) {
            return &e;
        }
    }
    return nullptr;
}

static thread_local char tl_cur_op[256] = "-";

void set_cur_op(const char* label) {
    strncpy(tl_cur_op, label, sizeof(tl_cur_op) - 1);
    tl_cur_op[sizeof(tl_cur_op) - 1] = 0;
}

void set_cur_opf(const char* f, ...) {
    va_list ap;
    va_start(ap, f);
    vsnprintf(tl_cur_op, sizeof(tl_cur_op), f, ap);
    va_end(ap);
}

std::atomic<int> g_tsan_reports{0};

static void out(const std::string& s) {
    size_t off = 0;
    while (off < s.size()) {
        const ssize_t r = write(1, s.data() + off, s.size() - off);
        if (r <= 0) {
            break;
        }
        off += size_t(r);
    }
}

static std::set<uint64_t> g_seen_sig;
static std::set<uint64_t> g_seen_state;
static std::set<uint64_t> g_seen_trans;

static std::string hexlist(const std::vector<uint64_t>& v, std::set<uint64_t>& seen) {
    std::string s;
    char buf[32];
    for (uint64_t x : v) {
        if (seen.insert(x).second) {
            snprintf(buf, sizeof(buf), "%llx", static_cast<unsigned long long>(x));
            if (!s.empty()) {
                s += ",";
            }
            s += buf;
        }
    }
    return s.empty() ? "-" : s;
}

static void report(uint64_t seed, const Result& r, bool dump_sched) {
    std::ostringstream os;
    if (!r.sample.empty()) {
        os << "SAMPLE " << seed << " " << r.sample << "\n";
    }
    if (!r.ok) {
        os << "DETAIL " << seed << " " << r.detail << "\n";
    }
    if ((!r.ok || dump_sched) && !r.sched.empty()) {
        os << "SCHED " << seed;
        for (const auto& s : r.sched) {
            os << " " << s.idx << ":" << s.thr;
        }
        os << "\n";
    }
    os << "END " << seed << " " << (r.invalid ? "INVALID" : (r.ok ? "ok" : "VIOL")) << " class=" << (r.vclass.empty() ? "-" : r.vclass);
    char buf[32];
    snprintf(buf, sizeof(buf), "%016llx", static_cast<unsigned long long>(r.digest.h));
    os << " digest=" << buf;
    snprintf(buf, sizeof(buf), "%016llx", static_cast<unsigned long long>(r.sched_hash));
    os << " sh=" << buf << " nthr=" << r.nthreads << " ctr=";
    bool first = true;
    for (const auto& kv : r.ctr) {
        os << (first ? "" : ",") << kv.first << ":" << kv.second;
        first = false;
    }
    if (first) {
        os << "-";
    }
    os << " sigs=" << hexlist(r.sigs, g_seen_sig);
    os << " states=" << hexlist(r.states, g_seen_state);
    os << " trans=" << hexlist(r.trans, g_seen_trans);
    os << "\n";
    out(os.str());
}

static void on_alarm(int) {
    // backup for endless loops in uninstrumented code (the edge clock cannot see those)
    const char* msg = "WALL-TIMEOUT run exceeded its wall-clock limit\n";
    ssize_t w = write(1, msg, strlen(msg));
    (void)w;
    _exit(81);
}

static Result run_plan(const Engine& e, const Plan& pl) {
    Result r;
    signal(SIGALRM, on_alarm);
    alarm(pl.tier == "thorough" ? 1800u : 600u);
    run_isolated([&] { r = e.exec(pl); });
    alarm(0);
    return r;
}

}   // namespace vf

extern "C" void sim_budget_exceeded() {
    std::string s = std::string("BUDGET-EXCEEDED op=") + vf::tl_cur_op + "\n";
    vf::out(s);
    _exit(78);
}

#ifdef VF_ASAN
extern "C" __attribute__((used, visibility("default"))) const char* __asan_default_options() {
    return "exitcode=77:detect_leaks=0:handle_abort=1:handle_sigfpe=1:allocator_may_return_null=0:max_allocation_size_mb=4096:"
           "detect_stack_use_after_return=0:print_summary=1:external_symbolizer_path=/usr/bin/llvm-symbolizer-14";
}
extern "C" __attribute__((used, visibility("default"))) const char* __ubsan_default_options() {
    return "print_stacktrace=1:halt_on_error=1:external_symbolizer_path=/usr/bin/llvm-symbolizer-14";
}
#endif

#ifdef VF_TSAN
extern "C" __attribute__((used, visibility("default"))) const char* __tsan_default_options() {
    return "halt_on_error=1:exitcode=66:suppress_equal_stacks=0:suppress_equal_addresses=0:report_signal_unsafe=0:"
           "history_size=7:external_symbolizer_path=/usr/bin/llvm-symbolizer-14:second_deadlock_stack=0:report_thread_leaks=0";
}
extern "C" __attribute__((used, visibility("default"))) void __tsan_on_report(void*) {
    vf::g_tsan_reports.fetch_add(1);
}
#endif

namespace vf {

// One-time process-global initialisations are done before any run so that the first run of a
// worker executes the same code as every later one (and as a replay in a fresh process).
void warm_up();

}   // namespace vf

static void on_terminate() {
    vf::out(std::string("TERMINATE op=") + vf::tl_cur_op + "\n");
    abort();
}

int main(int argc, char** argv) {
    using namespace vf;
    std::set_terminate(on_terminate);
    if (argc < 2) {
        out("usage: worker list | gen ENGINE SEED TIER | batch ENGINE BASE I0 COUNT TIER | exec FILE [twice]\n");
        return 2;
    }
    const std::string cmd = argv[1];
    // engine C09F runs one run per process WITHOUT warm-up (first use of guarded statics inside the simulation)
    auto maybe_warm = [](const std::string& engine) {
        if (engine != "C09F") {
            run_isolated([] { warm_up(); });
        }
    };

    if (cmd == "list") {
        for (const auto& e : engines()) {
            out(std::string(e.id) + " " + e.descr + "\n");
        }
        return 0;
    }
    if (cmd == "gen" && argc >= 5) {
        const Engine* e = find_engine(argv[2]);
        if (!e) {
            out("ERROR unknown engine\n");
            return 2;
        }
        maybe_warm(argv[2]);
        const Plan pl = e->gen(strtoull(argv[3], nullptr, 10), argv[4]);
        out(pl.to_text());
        return 0;
    }
    if (cmd == "batch" && argc >= 7) {
        const Engine* e = find_engine(argv[2]);
        if (!e) {
            out("ERROR unknown engine\n");
            return 2;
        }
        maybe_warm(argv[2]);
        const uint64_t base = strtoull(argv[3], nullptr, 10);
        const uint64_t i0 = strtoull(argv[4], nullptr, 10);
        const uint64_t cnt = strtoull(argv[5], nullptr, 10);
        const std::string tier = argv[6];
        for (uint64_t i = i0; i < i0 + cnt; ++i) {
            const uint64_t seed = mix(base, i) >> 1;
            out(fmt("BEGIN %llu %llu\n", static_cast<unsigned long long>(seed), static_cast<unsigned long long>(i)));
            const Plan pl = e->gen(seed, tier);
            const Result r = run_plan(*e, pl);
            report(seed, r, false);
        }
        out("BATCH-DONE\n");
        return 0;
    }
    if (cmd == "exec" && argc >= 3) {
        std::string text;
        if (std::string(argv[2]) == "-") {
            std::ostringstream ss;
            ss << std::cin.rdbuf();
            text = ss.str();
        } else {
            std::ifstream f(argv[2]);
            if (!f) {
                out("ERROR cannot open plan\n");
                return 2;
            }
            std::ostringstream ss;
            ss << f.rdbuf();
            text = ss.str();
        }
        Plan pl;
        std::string err;
        if (!Plan::parse(text, pl, err)) {
            out("ERROR " + err + "\n");
            return 2;
        }
        const Engine* e = find_engine(pl.engine);
        if (!e) {
            out("ERROR unknown engine\n");
            return 2;
        }
        maybe_warm(pl.engine);
        const int reps = (argc >= 4 && std::string(argv[3]) == "twice") ? 2 : 1;
        for (int k = 0; k < reps; ++k) {
            out(fmt("BEGIN %llu %d\n", static_cast<unsigned long long>(pl.seed), k));
            const Result r = run_plan(*e, pl);
            report(pl.seed, r, true);
        }
        out("BATCH-DONE\n");
        return 0;
    }
    out("ERROR bad command\n");
    return 2;
}
