// C19 — replay clause: after rng(seed) every generator replays the same values, whatever was drawn
// before (history) and whatever other threads seed or draw in between (schedule); randi stays inside its
// inclusive bounds.  (awgn power calibration and snr/sinad/thd accuracy are pure numerics: not decided.)
#include "dsp_util.h"
#include "simrun.h"
#include "histcalls.h"

#include <atomic>

namespace vf {

extern std::atomic<int> g_tsan_reports;

namespace {

// op "seed": s                       -> dsplib::rng(s)
// op "g": kind a b n                 -> one generator call
enum { G_RAND0 = 0, G_RANDN_ARR, G_RAND_ARR, G_RAND_RANGE, G_RANDN0, G_RANDI_MAX, G_RANDI_MAX_N, G_RANDI_RANGE, G_RANDI_RANGE_N, G_AWGN_R, G_AWGN_C, G_COUNT };

struct Bounds {
    bool ok{true};
    std::string msg;
};

std::atomic<int64_t> g_churned{0};

bool op_valid(const Op& op) {
    if (op.kind == "seed") {
        return op.a.size() >= 1 && std::fabs(op.arg(0)) <= 2147483647.0;
    }
    if (op.kind == "churn") {
        return op.a.size() >= 1 && op.iarg(0) >= 1 && op.iarg(0) <= 100;
    }
    if (op.kind != "g" || op.a.size() < 4) {
        return false;
    }
    const int64_t kind = op.iarg(0);
    const int64_t a = op.iarg(1);
    const int64_t b = op.iarg(2);
    const int64_t n = op.iarg(3);
    if (kind < 0 || kind >= G_COUNT || n < 0 || n > 4096) {
        return false;
    }
    if (kind == G_RANDI_MAX || kind == G_RANDI_MAX_N) {
        return a >= 1 && a <= 2000000000;
    }
    if (kind == G_RANDI_RANGE || kind == G_RANDI_RANGE_N) {
        return a <= b && a >= -2147483648ll && b <= 2147483647ll;
    }
    if (kind == G_RAND_RANGE) {
        return op.arg(1) < op.arg(2);
    }
    if (kind == G_AWGN_R || kind == G_AWGN_C) {
        return n >= 2;
    }
    return true;
}

void run_op(const Op& op, std::vector<double>& out, Bounds& bd) {
    if (op.kind == "seed") {
        dsplib::rng(int(op.iarg(0)));
        return;
    }
    if (op.kind == "churn") {
        // thread churn: short-lived threads come, draw once and go while this thread's sequence is in progress
        for (int64_t i = 0; i < op.iarg(0); ++i) {
            run_isolated([] { (void)dsplib::rand(); });
        }
        ++g_churned;
        return;
    }
    const int kind = int(op.iarg(0));
    const int n = int(op.iarg(3));
    auto chk = [&](int v, int lo, int hi) {
        if ((v < lo || v > hi) && bd.ok) {
            bd.ok = false;
            bd.msg = fmt("randi returned %d outside [%d, %d]", v, lo, hi);
        }
    };
    switch (kind) {
    case G_RAND0:
        out.push_back(dsplib::rand());
        break;
    case G_RANDN_ARR:
        append(out, dsplib::randn(n));
        break;
    case G_RAND_ARR:
        append(out, dsplib::rand(n));
        break;
    case G_RAND_RANGE: {
        const auto v = dsplib::rand({op.arg(1), op.arg(2)}, n);
        for (int i = 0; i < v.size(); ++i) {
            if ((v[i] < op.arg(1) || v[i] > op.arg(2)) && bd.ok) {
                bd.ok = false;
                bd.msg = fmt("rand(range) returned %.17g outside [%.17g, %.17g]", v[i], op.arg(1), op.arg(2));
            }
        }
        append(out, v);
        break;
    }
    case G_RANDN0:
        out.push_back(dsplib::randn());
        break;
    case G_RANDI_MAX: {
        const int v = dsplib::randi(int(op.iarg(1)));
        chk(v, 1, int(op.iarg(1)));
        out.push_back(v);
        break;
    }
    case G_RANDI_MAX_N: {
        const auto v = dsplib::randi(int(op.iarg(1)), n);
        for (int i = 0; i < v.size(); ++i) {
            chk(v[i], 1, int(op.iarg(1)));
            out.push_back(v[i]);
        }
        break;
    }
    case G_RANDI_RANGE: {
        const int v = dsplib::randi({int(op.iarg(1)), int(op.iarg(2))});
        chk(v, int(op.iarg(1)), int(op.iarg(2)));
        out.push_back(v);
        break;
    }
    case G_RANDI_RANGE_N: {
        const auto v = dsplib::randi({int(op.iarg(1)), int(op.iarg(2))}, n);
        for (int i = 0; i < v.size(); ++i) {
            chk(v[i], int(op.iarg(1)), int(op.iarg(2)));
            out.push_back(v[i]);
        }
        break;
    }
    case G_AWGN_R: {
        arr_real x(n);
        for (int i = 0; i < n; ++i) {
            x[i] = 1.0 + 0.25 * i;
        }
        append(out, dsplib::awgn(x, op.arg(1)));
        break;
    }
    case G_AWGN_C: {
        arr_cmplx x(n);
        for (int i = 0; i < n; ++i) {
            x[i] = cmplx_t{1.0 + 0.25 * i, -0.5 * i};
        }
        append(out, dsplib::awgn(x, op.arg(1)));
        break;
    }
    default:
        break;
    }
}

Op gen_g(Rng& r) {
    Op op;
    op.kind = "g";
    const int kind = int(r.below(G_COUNT));
    double a = 0;
    double b = 0;
    int64_t n = r.chance(0.2) ? 0 : r.logi(1, 64);
    switch (kind) {
    case G_RANDI_MAX:
    case G_RANDI_MAX_N:
        a = double(r.chance(0.2) ? 1 : r.logi(1, 1000000));
        break;
    case G_RANDI_RANGE:
    case G_RANDI_RANGE_N: {
        const int c = int(r.below(5));
        const int64_t lo = (c == 0) ? r.range(-1000, 1000) : (c == 1) ? -r.logi(1, 1000000) : r.range(-5, 5);
        a = double(lo);
        b = double((c == 0) ? lo : lo + r.logi(1, 100000) - 1);   // c == 0: single-value range
        if (c == 4) {
            // ranges whose width does not fit in 31 bits (every int pair with imin <= imax is a valid range)
            static const int64_t wide[][2] = {{0, 2147483647ll}, {-1, 2147483647ll}, {-2000000000ll, 2000000000ll}, {-2147483648ll, 0}, {-2147483648ll, 2147483647ll},
                                              {-2147483648ll, -2147483648ll}, {2147483647ll, 2147483647ll}, {-1073741824ll, 1073741824ll}};
            const auto& w = wide[r.below(8)];
            a = double(w[0]);
            b = double(w[1]);
        }
        break;
    }
    case G_RAND_RANGE:
        a = r.real(-100, 100);
        b = a + r.logu(1e-6, 1e3);
        break;
    case G_AWGN_R:
    case G_AWGN_C:
        a = r.real(-10, 80);
        n = r.range(2, 64);
        break;
    default:
        break;
    }
    op.a = {double(kind), a, b, double(n)};
    return op;
}

Plan gen(uint64_t seed, const std::string& tier) {
    Rng r(mix(seed, 0xC19));
    Plan pl;
    pl.engine = "C19";
    pl.seed = seed;
    pl.tier = tier;
    const int nthr = r.chance(0.3) ? 1 : int(r.range(2, tier == "thorough" ? 8 : 4));
    gen_sched_params(r, pl, nthr);
    pl.p["prefix2_seed"] = r.seed32();
    pl.p["measure_hist"] = r.chance(0.08) ? double(r.seed32()) : 0.0;
    for (int t = 0; t < nthr; ++t) {
        const int npre = int(r.range(0, 6));
        for (int i = 0; i < npre; ++i) {
            Op op = gen_g(r);
            op.thr = t;
            pl.ops.push_back(op);
        }
        if (r.chance(0.2) && npre > 0) {
            Op s0;
            s0.kind = "seed";
            s0.thr = t;
            s0.a = {double(r.range(0, 1000))};
            pl.ops.insert(pl.ops.end() - 1, s0);   // an earlier re-seed inside the prefix
        }
        Op s;
        s.kind = "seed";
        s.thr = t;
        s.a = {double(r.chance(0.7) ? r.range(0, 1000) : int64_t(r.next() % 4294967295ull) - 2147483647)};
        if (r.chance(0.3)) {
            // seed twice with the SAME value and only 0-2 generator calls in between (a "seed unchanged, skip" shortcut must not skip)
            pl.ops.push_back(s);
            const int between = int(r.range(0, 2));
            for (int i = 0; i < between; ++i) {
                Op op = gen_g(r);
                op.thr = t;
                pl.ops.push_back(op);
            }
        }
        pl.ops.push_back(s);
        const int nsuf = int(r.range(1, 8));
        const int churn_at = r.chance(0.05) ? int(r.range(0, nsuf - 1)) : -1;
        for (int i = 0; i < nsuf; ++i) {
            Op op = gen_g(r);
            op.thr = t;
            pl.ops.push_back(op);
            if (i == churn_at) {
                Op c;
                c.kind = "churn";
                c.thr = t;
                c.a = {double(r.chance(0.6) ? r.range(30, 70) : r.range(1, 8))};
                pl.ops.push_back(c);
            }
        }
    }
    return pl;
}

Result exec(const Plan& pl) {
    Result res;
    const int nthr = int(std::min<int64_t>(std::max<int64_t>(pl.iparam("nthr", 1), 1), 16));
    std::vector<std::vector<Op>> prog(static_cast<size_t>(nthr));
    for (const auto& op : pl.ops) {
        if (!op_valid(op) || op.thr < 0 || op.thr >= nthr) {
            res.invalid = true;
            return res;
        }
        prog[size_t(op.thr)].push_back(op);
    }
    if (pl.ops.empty()) {
        res.invalid = true;
        return res;
    }
    // suffix = ops after the thread's LAST seed op (inclusive)
    std::vector<int> last_seed(static_cast<size_t>(nthr), -1);
    for (int t = 0; t < nthr; ++t) {
        for (size_t i = 0; i < prog[size_t(t)].size(); ++i) {
            if (prog[size_t(t)][i].kind == "seed") {
                last_seed[size_t(t)] = int(i);
            }
        }
    }
    std::vector<std::vector<double>> got(static_cast<size_t>(nthr));
    std::vector<Bounds> bounds(static_cast<size_t>(nthr));
    const int tsan0 = g_tsan_reports.load();
    SimThreads st;
    st.configure(pl, nthr);
    constexpr uint64_t THREAD_EDGE_BUDGET = 50000000ull;   // a thread of this engine executes ~1e5 edges
    st.run([&](int me) {
        sim::set_edge_budget(THREAD_EDGE_BUDGET);
        std::vector<double> pre;
        for (size_t i = 0; i < prog[size_t(me)].size(); ++i) {
            set_cur_opf("C19 thread %d op %zu", me, i);
            const bool in_suffix = last_seed[size_t(me)] >= 0 && int(i) >= last_seed[size_t(me)];
            run_op(prog[size_t(me)][i], in_suffix ? got[size_t(me)] : pre, bounds[size_t(me)]);
            sim::op_boundary();
        }
    });
    st.collect(res);
    for (const auto& e : st.errors) {
        if (!e.empty()) {
            res.fail("C19:exception", e);
        }
    }
    const int races = g_tsan_reports.load() - tsan0;
    if (races > 0) {
        res.fail("C19:tsan-race", fmt("%d ThreadSanitizer report(s) while %d threads used the random generators concurrently", races, nthr));
    }
    const uint32_t p2seed = uint32_t(pl.iparam("prefix2_seed", 1));
    for (int t = 0; t < nthr && res.ok; ++t) {
        if (!bounds[size_t(t)].ok) {
            res.fail("C19:randi-bounds", fmt("thread %d: %s", t, bounds[size_t(t)].msg.c_str()));
            break;
        }
        if (last_seed[size_t(t)] < 0) {
            continue;
        }
        const std::vector<Op> suffix(prog[size_t(t)].begin() + last_seed[size_t(t)], prog[size_t(t)].end());
        // reference 1: fresh thread, rng(s) then the suffix, nothing else
        std::vector<double> ref1;
        std::vector<double> ref2;
        Bounds b1;
        run_isolated([&] {
            sim::set_edge_budget(THREAD_EDGE_BUDGET);
            set_cur_opf("C19 reference replay of thread %d", t);
            for (const auto& op : suffix) {
                if (op.kind != "churn") {   // the reference is the undisturbed sequence
                    run_op(op, ref1, b1);
                }
            }
        });
        // reference 2: a DIFFERENT history before the same rng(s)
        run_isolated([&] {
            sim::set_edge_budget(THREAD_EDGE_BUDGET);
            set_cur_opf("C19 reference replay after another prefix, thread %d", t);
            Rng r(mix(p2seed, uint64_t(t)));
            std::vector<double> junk;
            Bounds bj;
            const int n = int(r.range(1, 5));
            for (int i = 0; i < n; ++i) {
                run_op(gen_g(r), junk, bj);
            }
            for (const auto& op : suffix) {
                if (op.kind != "churn") {
                    run_op(op, ref2, b1);
                }
            }
        });
        auto same = [](const std::vector<double>& a, const std::vector<double>& b) {
            return a.size() == b.size() && (a.empty() || std::memcmp(a.data(), b.data(), a.size() * sizeof(double)) == 0);
        };
        if (!same(got[size_t(t)], ref1)) {
            res.fail("C19:replay-differs", fmt("thread %d of %d: the %zu values drawn after rng(%lld) differ from the same calls after rng(%lld) in a fresh thread (first op kind %lld)", t, nthr,
                                               got[size_t(t)].size(), static_cast<long long>(suffix[0].iarg(0)), static_cast<long long>(suffix[0].iarg(0)),
                                               static_cast<long long>(suffix.size() > 1 ? suffix[1].iarg(0) : -1)));
            break;
        }
        if (!same(ref1, ref2)) {
            res.fail("C19:history-dependent", fmt("thread %d: values after rng(%lld) depend on what was drawn before the seeding", t, static_cast<long long>(suffix[0].iarg(0))));
            break;
        }
        res.digest.bytes(got[size_t(t)].data(), got[size_t(t)].size() * sizeof(double));
        res.inc("probe.replay_compared");
        res.inc("sim.values_compared", int64_t(got[size_t(t)].size()));
    }
    // 1 run in 12: a history of thd / sinad / snr / awgn calls on records sharing an FFT size (history independence only;
    // their calibration is not decided here)
    if (res.ok && pl.iparam("measure_hist", 0) != 0) {
        run_history_calls("C19", HF_MEASURE, uint32_t(pl.iparam("measure_hist", 1)), 4, res);
    }
    res.inc("sim.threads", nthr);
    res.inc("fault.thread_churn_during_sequence", g_churned.exchange(0));
    res.inc("probe.multi_thread_run", nthr > 1);
    if (nthr > 1 || pl.ops.size() > 2) {
        Hash h;
        h.u64(uint64_t(nthr));
        for (const auto& op : pl.ops) {
            h.str(op.kind);
            h.u64(uint64_t(op.iarg(0)));
            h.u64(uint64_t(op.thr));
        }
        res.sigs.push_back(h.h);
    }
    res.sample = fmt("%d threads, %zu ops; thread 0: %zu ops, last rng() at op %d", nthr, pl.ops.size(), prog[0].size(), last_seed[0]);
    return res;
}

EngineReg reg({"C19", gen, exec, "random streams replay after rng(seed) regardless of history and of other threads"});

}   // namespace
}   // namespace vf
