// C18 — PreambleDetector clause: the simulator owns the ARRIVAL TIME of the preamble relative to the
// detector's frame clock and the number of frames the transport delivers per call.  Ground truth is the
// arrival index; an independent long-double evaluation of the documented score decides whether the
// scenario has enough margin to be judged at all.  (finddelay/gccphat/delayseq/peakloc: pure, not decided.)
#include "dsp_util.h"
#include "simrun.h"
#include "histcalls.h"

namespace vf {
namespace {

using cld = std::complex<long double>;

// op "det": nh kind seed thr amp_db noise_rel_db end_idx total_frames callseed has_preamble
constexpr size_t NARGS = 10;

std::vector<cld> make_preamble(int nh, int kind, uint32_t seed) {
    std::vector<cld> h(static_cast<size_t>(nh));
    Rng r(mix(seed, 0x9EA));
    if (kind == 0) {
        // Zadoff-Chu: root coprime with the length
        int u = 1 + int(r.below(uint64_t(nh - 1)));
        auto gcd = [](int a, int b) {
            while (b) {
                const int t = a % b;
                a = b;
                b = t;
            }
            return a;
        };
        while (gcd(u, nh) != 1) {
            u = 1 + (u % (nh - 1));
        }
        const int cf = nh % 2;
        for (int n = 0; n < nh; ++n) {
            const long double ph = -3.14159265358979323846264338327950288L * u * n * (n + cf) / nh;
            h[size_t(n)] = cld(cosl(ph), sinl(ph));
        }
    } else if (kind == 1) {
        // PN +-1
        for (auto& v : h) {
            v = cld(r.chance(0.5) ? 1.0L : -1.0L, 0);
        }
    } else {
        // linear chirp
        const long double k = r.real(0.2, 0.9);
        for (int n = 0; n < nh; ++n) {
            const long double ph = 3.14159265358979323846264338327950288L * k * n * n / nh;
            h[size_t(n)] = cld(cosl(ph), sinl(ph));
        }
    }
    return h;
}

Plan gen(uint64_t seed, const std::string& tier) {
    Rng r(mix(seed, 0xC18));
    const bool big = (tier == "thorough");
    Plan pl;
    pl.engine = "C18";
    pl.seed = seed;
    pl.tier = tier;
    if (r.chance(0.12)) {
        Op h;
        h.kind = "hist";
        h.a = {double(r.seed32()), double(r.range(2, 6))};
        pl.ops.push_back(h);
        return pl;
    }
    Op op;
    op.kind = "det";
    const int nh = int(r.logi(16, big ? 512 : 200));
    const int kind = int(r.pick(std::vector<double>{0, 0, 1, 2}));
    const double thr = r.real(0.3, 0.9);
    const double amp_db = r.real(-60, 0);
    const double noise = r.chance(0.5) ? 0.0 : -r.real(30, 80);
    // frame clock of the detector: block = 2^nextpow2(2 nh) - nh + 1
    int fft = 1;
    while (fft < 2 * nh) {
        fft *= 2;
    }
    const int block = fft - nh + 1;
    const int total = int(r.range(2, 8));
    const int has = r.chance(0.85) ? 1 : 0;
    // arrival: the last preamble sample falls on a chosen residue modulo the frame length
    const int c = int(r.below(6));
    int resid = (c == 0) ? 0 : (c == 1) ? block - 1 : (c == 2) ? int(r.range(0, std::min(nh - 2, block - 1))) : int(r.range(0, block - 1));
    int fr = int(r.range(0, total - 1));
    int64_t end = int64_t(fr) * block + resid;
    while (end < nh - 1) {
        end += block;
    }
    while (end >= int64_t(total) * block) {
        end -= block;
    }
    if (end < nh - 1) {
        end = nh - 1;
    }
    // level of the REFERENCE sequence handed to the detector (the score is normalised by rms(h): any level must do)
    const double href_db = r.chance(0.5) ? 0.0 : r.pick(std::vector<double>{-40, -20, -10, 10, 18, 30});
    op.a = {double(nh), double(kind), double(r.seed32()), thr, amp_db, noise, double(end), double(total), double(r.seed32()), double(has), href_db};
    pl.ops.push_back(op);
    return pl;
}

Result exec(const Plan& pl) {
    Result res;
    if (pl.ops.size() == 1 && pl.ops[0].kind == "hist" && pl.ops[0].a.size() >= 2) {
        // call histories of finddelay / gccphat / xcorr / delayseq: history independence only (their accuracy is not decided here)
        run_history_calls("C18", HF_DELAY, uint32_t(pl.ops[0].iarg(0)), int(pl.ops[0].iarg(1)), res);
        res.sample = fmt("history of %lld delay-estimator calls", static_cast<long long>(pl.ops[0].iarg(1)));
        if (res.ok) {
            Hash hh;
            hh.u64(pl.ops[0].iarg(0) % 64);
            res.sigs.push_back(hh.h ^ 0x18);
        }
        return res;
    }
    if (pl.ops.size() != 1 || pl.ops[0].kind != "det" || pl.ops[0].a.size() < NARGS) {
        res.invalid = true;
        return res;
    }
    const Op& op = pl.ops[0];
    const int nh = int(op.iarg(0));
    const int kind = int(op.iarg(1));
    const uint32_t seed = uint32_t(op.iarg(2));
    const double thr = op.arg(3);
    const double amp = std::pow(10.0, op.arg(4) / 20.0);
    const double noise_rel = op.arg(5);
    const int64_t end = op.iarg(6);
    const int total = int(op.iarg(7));
    const uint32_t callseed = uint32_t(op.iarg(8));
    const bool has = op.iarg(9) != 0;
    if (nh < 4 || nh > 2048 || kind < 0 || kind > 2 || !(thr >= 0.05 && thr <= 0.99) || !(op.arg(4) >= -100 && op.arg(4) <= 20) || total < 1 || total > 64 || noise_rel > 0) {
        res.invalid = true;
        return res;
    }
    const double href = std::pow(10.0, op.arg(10, 0.0) / 20.0);
    if (!(href > 1e-6 && href < 1e6)) {
        res.invalid = true;
        return res;
    }
    std::vector<cld> h = make_preamble(nh, kind, seed);
    for (auto& v : h) {
        v *= static_cast<long double>(href);   // the stream below carries amp * h (so its level is amp * href)
    }
    arr_cmplx ha(nh);
    for (int i = 0; i < nh; ++i) {
        ha[i] = cmplx_t{double(h[size_t(i)].real()), double(h[size_t(i)].imag())};
    }
    set_cur_opf("C18 PreambleDetector nh=%d kind=%d thr=%.3f end=%lld", nh, kind, thr, static_cast<long long>(end));
    dsplib::PreambleDetector det(ha, thr);
    // the caller's array is reused for something else as soon as the detector exists: the detector owns its reference
    for (int i = 0; i < nh; ++i) {
        ha[i] = cmplx_t{double((i * 7919 + 13) % 17) - 8.0, double((i * 104729 + 5) % 13) - 6.0};
    }
    const int block = det.frame_len();
    const int64_t N = int64_t(total) * block;
    if (has && (end < nh - 1 || end >= N)) {
        res.invalid = true;
        return res;
    }
    // the stream
    Rng r(mix(callseed, 0x57));
    std::vector<cld> x(static_cast<size_t>(N), cld(0, 0));
    if (noise_rel < 0) {
        const double sigma = amp * std::pow(10.0, noise_rel / 20.0) * 0.7071067811865476;
        for (auto& v : x) {
            v = cld(sigma * r.normal(), sigma * r.normal());
        }
    }
    if (has) {
        for (int i = 0; i < nh; ++i) {
            x[size_t(end - nh + 1 + i)] += static_cast<long double>(amp) * h[size_t(i)];
        }
    }
    // independent reference of the documented score: |matched filter|^2 / moving mean of |x|^2 over nh samples
    long double hp = 0;
    for (const auto& v : h) {
        hp += std::norm(v);
    }
    const long double rms_h = std::sqrt(hp / nh);
    std::vector<double> score(static_cast<size_t>(N), 0.0);
    {
        long double acc = 0;
        for (int64_t n = 0; n < N; ++n) {
            acc += std::norm(x[size_t(n)]);
            if (n >= nh) {
                acc -= std::norm(x[size_t(n - nh)]);
            }
            if (acc < 0) {
                acc = 0;
            }
            cld c(0, 0);
            const int64_t jmax = std::min<int64_t>(nh - 1, n);
            for (int64_t j = 0; j <= jmax; ++j) {
                c += std::conj(h[size_t(nh - 1 - j)]) * x[size_t(n - j)];
            }
            c /= (static_cast<long double>(nh) * rms_h);
            const long double p = acc / nh;
            score[size_t(n)] = (p > 0) ? double(std::sqrt(std::norm(c) / p)) : 0.0;
        }
    }
    // margin rule: judge only scenarios whose ground truth is unambiguous
    bool keep = true;
    double side = 0;
    for (int64_t n = 0; n < N; ++n) {
        if (has && n == end) {
            continue;
        }
        side = std::max(side, score[size_t(n)]);
    }
    if (side > 0.9 * thr) {
        keep = false;
    }
    if (has && score[size_t(end)] < 1.1 * thr) {
        keep = false;
    }
    res.inc("sim.samples", N);
    if (!keep) {
        res.inc("scenarios_discarded_by_margin_rule");
        res.sample = fmt("discarded: nh=%d thr=%.3f peak=%.3f sidelobe=%.3f", nh, thr, has ? score[size_t(end)] : 0.0, side);
        return res;
    }
    res.inc("scenarios_kept");
    // the transport delivers 1..4 frames per call
    int64_t pos = 0;
    bool detected = false;
    bool multi = false;
    int calls = 0;
    // history before the scenario: the detector has already processed another (non-silent) stream and was reset()
    if ((uint32_t(op.iarg(8)) % 7u) < 2u) {
        Rng hr(mix(callseed, 0x4157));
        const int pre = int(hr.range(1, 3));
        const double lvl = amp * hr.logu(0.3, 3.0);
        try {
            for (int k = 0; k < pre; ++k) {
                arr_cmplx junk(block);
                for (int i = 0; i < block; ++i) {
                    junk[i] = cmplx_t{lvl * hr.normal(), lvl * hr.normal()};
                }
                (void)det.process(junk);
            }
            det.reset();
        } catch (const std::exception& e) {
            res.fail("C18:exception", std::string("PreambleDetector history / reset threw: ") + e.what());
            return res;
        }
        res.inc("fault.earlier_stream_then_reset");
    }
    const bool reject_fault = (uint32_t(op.iarg(8)) % 5u) == 0u;   // a call with an unsupported length (rejected by exception) somewhere in the history
    const int64_t reject_at = reject_fault ? int64_t(r.below(uint64_t(total))) * block : -1;
    int spurious_checked = 0;
    while (pos < N) {
        if (pos == reject_at) {
            bool threw = false;
            try {
                (void)det.process(arr_cmplx(block + 1 + int(r.below(uint64_t(block - 1)))));
            } catch (const std::exception&) {
                threw = true;
            }
            res.inc("fault.rejected_call_in_history", threw);
            if (!threw) {
                res.fail("C18:bad-length-accepted", fmt("nh=%d frame_len=%d: a call whose length is not a multiple of frame_len() was accepted", nh, block));
                return res;
            }
        }
        if (detected) {
            // the stream holds ONE preamble: nothing more may be reported in the frames after it (the reference score there is below 0.9 x threshold)
            const int nf2 = int(std::min<int64_t>(r.range(1, 4), (N - pos) / block));
            const int len2 = nf2 * block;
            arr_cmplx sig2(len2);
            for (int i = 0; i < len2; ++i) {
                sig2[i] = cmplx_t{double(x[size_t(pos + i)].real()), double(x[size_t(pos + i)].imag())};
            }
            std::optional<dsplib::PreambleDetector::Result> again;
            try {
                again = det.process(sig2);
            } catch (const std::exception& e) {
                res.fail("C18:exception", std::string("PreambleDetector::process threw: ") + e.what());
                return res;
            }
            if (again.has_value()) {
                res.fail("C18:spurious-detection-after-preamble",
                         fmt("nh=%d thr=%.3f: after the preamble (ended at stream index %lld) the call [%lld,%lld) reports another detection at offset %d with score %.4g; the largest "
                             "reference score outside the preamble is %.4f",
                             nh, thr, static_cast<long long>(end), static_cast<long long>(pos), static_cast<long long>(pos + len2), again->offset, again->score, side));
                return res;
            }
            ++spurious_checked;
            pos += len2;
            continue;
        }
        const int nf = int(std::min<int64_t>(r.range(1, 4), (N - pos) / block));
        multi |= (nf > 1);
        const int len = nf * block;
        arr_cmplx sig(len);
        for (int i = 0; i < len; ++i) {
            sig[i] = cmplx_t{double(x[size_t(pos + i)].real()), double(x[size_t(pos + i)].imag())};
        }
        std::optional<dsplib::PreambleDetector::Result> out;
        try {
            out = det.process(sig);
        } catch (const std::exception& e) {
            res.fail("C18:exception", std::string("PreambleDetector::process threw: ") + e.what());
            return res;
        }
        ++calls;
        const bool contains = has && end >= pos && end < pos + len;
        if (!contains) {
            if (out.has_value()) {
                res.fail(has ? "C18:early-or-late-detection" : "C18:false-detection",
                         fmt("nh=%d thr=%.3f: call [%lld,%lld) reports a detection at offset %d (score %.4f) but %s; largest reference score elsewhere %.4f", nh, thr,
                             static_cast<long long>(pos), static_cast<long long>(pos + len), out->offset, out->score,
                             has ? fmt("the preamble's last sample is stream index %lld", static_cast<long long>(end)).c_str() : "the stream contains no preamble", side));
                return res;
            }
        } else {
            if (!out.has_value()) {
                res.fail("C18:missed", fmt("nh=%d thr=%.3f amp=%.3g: the preamble completes at stream index %lld inside call [%lld,%lld) (reference score %.4f) but nothing is reported", nh,
                                           thr, amp, static_cast<long long>(end), static_cast<long long>(pos), static_cast<long long>(pos + len), score[size_t(end)]));
                return res;
            }
            detected = true;
            const int want = int(end - pos);
            if (out->offset != want) {
                res.fail("C18:wrong-offset", fmt("nh=%d thr=%.3f frame_len=%d: offset %d reported, the preamble's last sample is index %d of the call (stream index %lld, call of %d frames)",
                                                 nh, thr, block, out->offset, want, static_cast<long long>(end), nf));
                return res;
            }
            const double ref = score[size_t(end)];
            if (!(out->score >= thr) || std::fabs(out->score - ref) > 0.05 * ref) {
                res.fail("C18:score", fmt("nh=%d thr=%.3f: reported score %.6f, reference %.6f", nh, thr, out->score, ref));
                return res;
            }
            if (out->preamble.size() != nh) {
                res.fail("C18:preamble-length", fmt("nh=%d: returned preamble has %d samples", nh, out->preamble.size()));
                return res;
            }
            for (int i = 0; i < nh; ++i) {
                const cld w = x[size_t(end - nh + 1 + i)];
                if (out->preamble[i].re != double(w.real()) || out->preamble[i].im != double(w.imag())) {
                    res.fail("C18:preamble-samples", fmt("nh=%d frame_len=%d end=%lld: returned preamble sample %d is (%.9g,%.9g), the stream sample aligned with it is (%.9g,%.9g)", nh, block,
                                                         static_cast<long long>(end), i, out->preamble[i].re, out->preamble[i].im, double(w.real()), double(w.imag())));
                    return res;
                }
            }
            res.digest.f64(out->score);
        }
        pos += len;
    }
    res.inc("probe.frames_after_detection_checked", spurious_checked);
    if (has && !detected) {
        res.fail("C18:missed", fmt("nh=%d: stream ended without a detection (preamble ends at %lld)", nh, static_cast<long long>(end)));
        return res;
    }
    const bool straddle = has && ((end - nh + 1) / block != end / block);
    res.inc("probe.preamble_straddles_frame_boundary", straddle);
    res.inc("probe.last_sample_at_frame_index_0", has && end % block == 0);
    res.inc("probe.last_sample_at_frame_index_last", has && end % block == block - 1);
    res.inc("probe.multi_frame_call", multi);
    res.inc("probe.preamble_free_stream", !has);
    res.inc("fault.arrival_time", has);
    res.inc("sim.calls", calls);
    Hash hsh;
    hsh.u64(uint64_t(kind));
    hsh.u64(uint64_t(nh / 8));
    hsh.u64(uint64_t(has ? end % block : -1));
    hsh.u64(uint64_t(straddle) | uint64_t(multi) << 1 | uint64_t(noise_rel < 0) << 2);
    res.sigs.push_back(hsh.h);
    res.sample = fmt("nh=%d kind=%d thr=%.3f amp=%.1fdB noise=%.0fdB frame_len=%d end=%lld (residue %lld) frames=%d peak=%.3f sidelobe=%.3f", nh, kind, thr, op.arg(4), noise_rel, block,
                     static_cast<long long>(end), static_cast<long long>(has ? end % block : -1), total, has ? score[size_t(end)] : 0.0, side);
    return res;
}

EngineReg reg({"C18", gen, exec, "PreambleDetector: preamble arrival time vs frame clock, ground-truth offset"});

}   // namespace
}   // namespace vf
