// Shared infrastructure of the simulator: PRNG, plan (de)serialisation, results, engine registry.
#pragma once
#include <cmath>
#include <cstdarg>
#include <cstdint>
#include <cstdio>
#include <cstdlib>
#include <cstring>
#include <functional>
#include <map>
#include <set>
#include <sstream>
#include <string>
#include <vector>

namespace vf {

//---------------------------------------------------------------------------------------------
// splitmix64: every random choice of a run derives from one integer
struct Rng {
    uint64_t s;
    explicit Rng(uint64_t seed = 1)
      : s{seed} {
    }
    uint64_t next() {
        uint64_t z = (s += 0x9E3779B97F4A7C15ull);
        z = (z ^ (z >> 30)) * 0xBF58476D1CE4E5B9ull;
        z = (z ^ (z >> 27)) * 0x94D049BB133111EBull;
        return z ^ (z >> 31);
    }
    // integer in [0, n)
    uint64_t below(uint64_t n) {
        return n ? next() % n : 0;
    }
    // integer in [lo, hi]
    int64_t range(int64_t lo, int64_t hi) {
        return (hi <= lo) ? lo : lo + int64_t(below(uint64_t(hi - lo + 1)));
    }
    double real() {
        return (next() >> 11) * (1.0 / 9007199254740992.0);
    }
    double real(double lo, double hi) {
        return lo + (hi - lo) * real();
    }
    bool chance(double p) {
        return real() < p;
    }
    // log-uniform real in [lo, hi]
    double logu(double lo, double hi) {
        return std::exp(real(std::log(lo), std::log(hi)));
    }
    // log-uniform integer in [lo, hi]
    int64_t logi(int64_t lo, int64_t hi) {
        const double v = logu(double(lo), double(hi) + 0.999);
        int64_t r = int64_t(v);
        return r < lo ? lo : (r > hi ? hi : r);
    }
    double normal() {
        double u1 = 1.0 - real();
        double u2 = real();
        return std::sqrt(-2.0 * std::log(u1)) * std::cos(6.283185307179586 * u2);
    }
    template<class T>
    const T& pick(const std::vector<T>& v) {
        return v[below(v.size())];
    }
    uint32_t seed32() {
        return uint32_t(next() >> 33) | 1u;
    }
};

inline uint64_t mix(uint64_t a, uint64_t b) {
    Rng r(a ^ (b * 0xD6E8FEB86659FD93ull));
    return r.next();
}

//---------------------------------------------------------------------------------------------
// FNV-style running hash for traces / result digests
struct Hash {
    uint64_t h{0xcbf29ce484222325ull};
    void bytes(const void* p, size_t n) {
        const auto* b = static_cast<const unsigned char*>(p);
        for (size_t i = 0; i < n; ++i) {
            h = (h ^ b[i]) * 0x100000001b3ull;
        }
    }
    void u64(uint64_t v) {
        bytes(&v, sizeof(v));
    }
    void f64(double v) {
        bytes(&v, sizeof(v));
    }
    void str(const std::string& s) {
        bytes(s.data(), s.size());
    }
};

//---------------------------------------------------------------------------------------------
struct Op {
    int thr{0};
    std::string kind;
    std::vector<double> a;   // numeric arguments only; data is derived from seeds among them

    double arg(size_t i, double dflt = 0) const {
        return (i < a.size()) ? a[i] : dflt;
    }
    int64_t iarg(size_t i, int64_t dflt = 0) const {
        if (i >= a.size() || !std::isfinite(a[i])) {
            return dflt;
        }
        return int64_t(std::llround(a[i]));
    }
};

struct SwitchRec {
    uint64_t idx;
    int thr;
};

struct Plan {
    std::string engine;
    uint64_t seed{0};
    std::string tier{"quick"};
    std::map<std::string, double> p;   // run-level parameters
    std::vector<Op> ops;
    std::vector<SwitchRec> sched;   // explicit schedule (replay); empty: derive from parameters
    bool has_sched{false};

    double param(const std::string& k, double dflt = 0) const {
        auto it = p.find(k);
        return (it == p.end()) ? dflt : it->second;
    }
    int64_t iparam(const std::string& k, int64_t dflt = 0) const {
        auto it = p.find(k);
        if (it == p.end() || !std::isfinite(it->second)) {
            return dflt;
        }
        return int64_t(std::llround(it->second));
    }

    std::string to_text() const {
        std::ostringstream os;
        os << "engine " << engine << "\n";
        os << "seed " << seed << "\n";
        os << "tier " << tier << "\n";
        char buf[64];
        for (const auto& kv : p) {
            snprintf(buf, sizeof(buf), "%.17g", kv.second);
            os << "p " << kv.first << " " << buf << "\n";
        }
        for (const auto& op : ops) {
            os << "op " << op.thr << " " << op.kind;
            for (double v : op.a) {
                snprintf(buf, sizeof(buf), "%.17g", v);
                os << " " << buf;
            }
            os << "\n";
        }
        if (has_sched) {
            os << "sched";
            for (const auto& s : sched) {
                os << " " << s.idx << ":" << s.thr;
            }
            os << "\n";
        }
        return os.str();
    }

    static bool parse(const std::string& text, Plan& out, std::string& err) {
        std::istringstream is(text);
        std::string line;
        while (std::getline(is, line)) {
            if (line.empty() || line[0] == '#') {
                continue;
            }
            std::istringstream ls(line);
            std::string key;
            ls >> key;
            if (key == "engine") {
                ls >> out.engine;
            } else if (key == "seed") {
                ls >> out.seed;
            } else if (key == "tier") {
                ls >> out.tier;
            } else if (key == "p") {
                std::string k;
                std::string v;
                ls >> k >> v;
                out.p[k] = strtod(v.c_str(), nullptr);
            } else if (key == "op") {
                Op op;
                ls >> op.thr >> op.kind;
                std::string v;
                while (ls >> v) {
                    op.a.push_back(strtod(v.c_str(), nullptr));
                }
                out.ops.push_back(op);
            } else if (key == "sched") {
                out.has_sched = true;
                std::string v;
                while (ls >> v) {
                    const auto c = v.find(':');
                    if (c == std::string::npos) {
                        err = "bad sched entry";
                        return false;
                    }
                    out.sched.push_back(SwitchRec{strtoull(v.substr(0, c).c_str(), nullptr, 10), atoi(v.c_str() + c + 1)});
                }
            } else if (key == "expect" || key == "note" || key == "property" || key == "end") {
                // informational
            } else {
                err = "unknown line: " + line;
                return false;
            }
        }
        if (out.engine.empty()) {
            err = "no engine";
            return false;
        }
        return true;
    }
};

//---------------------------------------------------------------------------------------------
struct Result {
    bool ok{true};
    bool invalid{false};       // plan not executable (only possible for hand-edited / shrunk plans)
    std::string vclass;        // violation class (stable identifier used for shrinking and known findings)
    std::string detail;        // human-readable description
    Hash digest;               // result digest (determinism gate)
    std::map<std::string, int64_t> ctr;   // counters: fault kinds fired, probes, sizes, simulated time
    std::vector<uint64_t> sigs;           // signatures of non-trivial cases (distinctness is counted by the driver)
    std::vector<uint64_t> states;         // model states visited (where a model exists)
    std::vector<uint64_t> trans;          // model transitions
    std::vector<SwitchRec> sched;         // schedule actually taken
    uint64_t sched_hash{0};               // hash of that schedule (distinct interleavings are counted by the driver)
    int nthreads{1};
    std::string sample;                   // one-line description of the case (evidence samples)

    void fail(const std::string& cls, const std::string& what) {
        if (ok) {
            ok = false;
            vclass = cls;
            detail = what;
        }
    }
    void inc(const std::string& k, int64_t v = 1) {
        ctr[k] += v;
    }
};

struct Engine {
    const char* id;
    Plan (*gen)(uint64_t seed, const std::string& tier);
    Result (*exec)(const Plan& plan);
    const char* descr;
};

void register_engine(const Engine& e);
const Engine* find_engine(const std::string& id);

struct EngineReg {
    explicit EngineReg(const Engine& e) {
        register_engine(e);
    }
};

inline std::string fmt(const char* f, ...) __attribute__((format(printf, 1, 2)));
inline std::string fmt(const char* f, ...) {
    char buf[1024];
    va_list ap;
    va_start(ap, f);
    vsnprintf(buf, sizeof(buf), f, ap);
    va_end(ap);
    return buf;
}

}   // namespace vf
