// C09 — concurrent use is race-free and result-preserving.  The simulator decides which thread runs at
// every basic-block edge, when threads start and exit, and which plan objects are shared.
// Oracles: (a) every op's result equals the result of the same thread's op list run ALONE in a fresh
// thread; (b) in the tsan flavour any ThreadSanitizer report (the scheduler's hand-off is invisible to
// TSan, so unsynchronised conflicting accesses are reported independent of timing).
// Engine C09F is the same engine run one-run-per-process WITHOUT warm-up, so that the first use of the
// library's guarded function-local static (window.cpp factorial table) is contended inside the simulation.
#include "procs.h"
#include "simrun.h"

#include <dsplib/gccphat.h>

#include <mutex>

namespace vf {
namespace {

// ops with thr = -1:  shplan kind n m            shared plan object created before the threads start
// per-thread ops:     fft n ds | rfft n ds | ifft n ds | irfft n ds | xcorr n1 n2 ds | fftfilt hlen n ds | welch n win ds
//                     resample n p q ds | kaiser n beta | proc pseed n | seed s | draw kind n | primes n | factor n | shared k ds
//                     pub slot kind n m    create a plan in THIS thread (from this thread's caches) and publish it through a mutex-protected slot
//                     useslot slot ds      take whatever plan is in the slot (possibly created by another, possibly already exited thread) and solve
enum { SK_FFT = 0, SK_FFTR, SK_IFFT, SK_IFFTR, SK_CZT, SK_N };

struct Shared {
    int kind{0};
    int n{0};
    int m{0};
    std::shared_ptr<dsplib::FftPlan> fft;
    std::shared_ptr<dsplib::FftPlanR> fftr;
    std::shared_ptr<dsplib::IfftPlan> ifft;
    std::shared_ptr<dsplib::IfftPlanR> ifftr;
    std::shared_ptr<dsplib::CztPlan> czt;
};

arr_cmplx cdata(uint32_t ds, int n) {
    Rng r(mix(ds, uint64_t(n) * 11 + 1));
    arr_cmplx x(n);
    for (int i = 0; i < n; ++i) {
        x[i] = cmplx_t{r.normal(), r.normal()};
    }
    return x;
}

arr_real rdata(uint32_t ds, int n) {
    Rng r(mix(ds, uint64_t(n) * 11 + 2));
    arr_real x(n);
    for (int i = 0; i < n; ++i) {
        x[i] = r.normal();
    }
    return x;
}

// read-only input arrays shared by all threads, and processor prototypes every thread copies from: created by the controller
// before the threads exist and never written by the harness afterwards
struct InPool {
    arr_cmplx c;
    arr_real r;
    uint64_t h{0};
};
std::vector<InPool> g_ins;
struct Proto {
    ProcSpec spec;
    std::unique_ptr<Proc> p;
};
std::vector<Proto> g_protos;

uint64_t hash_in(const InPool& p) {
    Hash h;
    h.bytes(p.c.data(), size_t(p.c.size()) * sizeof(cmplx_t));
    h.bytes(p.r.data(), size_t(p.r.size()) * sizeof(real_t));
    return h.h;
}

bool make_shared_plan(Shared& s) {
    switch (s.kind) {
    case SK_FFT:
        s.fft = std::make_shared<dsplib::FftPlan>(s.n);
        return true;
    case SK_FFTR:
        s.fftr = std::make_shared<dsplib::FftPlanR>(s.n);
        return true;
    case SK_IFFT:
        s.ifft = std::make_shared<dsplib::IfftPlan>(s.n);
        return true;
    case SK_IFFTR:
        s.ifftr = std::make_shared<dsplib::IfftPlanR>(s.n);
        return true;
    case SK_CZT:
        s.czt = std::make_shared<dsplib::CztPlan>(s.n, s.m, dsplib::expj(-2 * dsplib::pi / s.m), cmplx_t{1, 0});
        return true;
    default:
        return false;
    }
}

bool op_valid(const Op& op, size_t nshared) {
    auto sz = [&](size_t i, int64_t hi = 20000) { return op.iarg(i) >= 1 && op.iarg(i) <= hi; };
    const std::string& k = op.kind;
    if (k == "shplan") {
        if (op.a.size() < 3 || op.iarg(0) < 0 || op.iarg(0) >= SK_N || !sz(1, 8192)) {
            return false;
        }
        if (op.iarg(0) == SK_IFFTR && op.iarg(1) % 2) {
            return false;
        }
        if (op.iarg(0) == SK_CZT && (!sz(2, 2048) || op.iarg(1) > 2048)) {
            return false;
        }
        return true;
    }
    if (k == "fft" || k == "rfft" || k == "ifft") {
        return op.a.size() >= 2 && sz(0, 40000);
    }
    if (k == "shin") {
        return op.a.size() >= 2 && op.iarg(0) >= 2 && sz(0, 8192);
    }
    if (k == "proto") {
        return op.a.size() >= 2 && op.iarg(1) >= 0 && op.iarg(1) <= 2000;
    }
    if (k == "onin") {
        return op.a.size() >= 2 && op.iarg(0) >= 0 && size_t(op.iarg(0)) < g_ins.size() && op.iarg(1) >= 0 && op.iarg(1) <= 7;
    }
    if (k == "useproto") {
        return op.a.size() >= 3 && op.iarg(0) >= 0 && size_t(op.iarg(0)) < g_protos.size() && sz(1, 5000);
    }
    if (k == "irfft") {
        return op.a.size() >= 2 && sz(0) && op.iarg(0) % 2 == 0;
    }
    if (k == "xcorr") {
        return op.a.size() >= 3 && sz(0, 4000) && sz(1, 4000);
    }
    if (k == "fftfilt") {
        return op.a.size() >= 3 && op.iarg(0) >= 2 && sz(0, 1000) && sz(1);
    }
    if (k == "welch") {
        return op.a.size() >= 3 && sz(0) && op.iarg(1) >= 4 && op.iarg(1) <= op.iarg(0);
    }
    if (k == "resample") {
        return op.a.size() >= 4 && sz(0) && sz(1, 64) && sz(2, 64);
    }
    if (k == "kaiser") {
        return op.a.size() >= 2 && sz(0, 5000) && op.arg(1) >= 0 && op.arg(1) <= 50;
    }
    if (k == "proc") {
        return op.a.size() >= 2 && sz(1, 5000);
    }
    if (k == "seed") {
        return op.a.size() >= 1 && std::fabs(op.arg(0)) < 2147483647.0;
    }
    if (k == "draw") {
        return op.a.size() >= 2 && op.iarg(0) >= 0 && op.iarg(0) <= 6 && sz(1, 2000);
    }
    if (k == "primes") {
        return op.a.size() >= 1 && op.iarg(0) >= 2 && op.iarg(0) <= 200000;
    }
    if (k == "factor") {
        return op.a.size() >= 1 && op.iarg(0) >= 1 && op.iarg(0) <= 2000000000;
    }
    if (k == "shared") {
        return op.a.size() >= 2 && op.iarg(0) >= 0 && size_t(op.iarg(0)) < nshared;
    }
    if (k == "pub") {
        if (op.a.size() < 4 || op.iarg(0) < 0 || op.iarg(0) > 3 || op.iarg(1) < 0 || op.iarg(1) >= SK_N || !sz(2, 4096)) {
            return false;
        }
        if (op.iarg(1) == SK_IFFTR && op.iarg(2) % 2) {
            return false;
        }
        return op.iarg(1) != SK_CZT || (sz(3, 1024) && op.iarg(2) <= 1024);
    }
    if (k == "useslot") {
        return op.a.size() >= 2 && op.iarg(0) >= 0 && op.iarg(0) <= 3;
    }
    if (k == "stft") {
        return op.a.size() >= 3 && sz(0, 6000) && op.iarg(1) >= 2 && op.iarg(1) <= 10;
    }
    if (k == "hilbert" || k == "thd") {
        return op.a.size() >= 2 && op.iarg(0) >= 16 && sz(0, 8000);
    }
    if (k == "czt") {
        return op.a.size() >= 3 && sz(0, 600) && sz(1, 600);
    }
    if (k == "gccphat" || k == "finddelay" || k == "mscohere") {
        return op.a.size() >= 2 && op.iarg(0) >= 64 && sz(0, 3000);
    }
    if (k == "medfilt") {
        return op.a.size() >= 3 && sz(0, 3000) && op.iarg(1) >= 3 && op.iarg(1) <= 33;
    }
    return false;
}

std::vector<double> do_op(const Op& op, const std::vector<Shared>& sh) {
    std::vector<double> out;
    const std::string& k = op.kind;
    const int n = int(op.iarg(0));
    if (k == "fft") {
        append(out, dsplib::fft(cdata(uint32_t(op.iarg(1)), n)));
    } else if (k == "rfft") {
        append(out, dsplib::fft(rdata(uint32_t(op.iarg(1)), n)));
    } else if (k == "ifft") {
        append(out, dsplib::ifft(cdata(uint32_t(op.iarg(1)), n)));
    } else if (k == "irfft") {
        append(out, dsplib::irfft(cdata(uint32_t(op.iarg(1)), n)));
    } else if (k == "xcorr") {
        append(out, dsplib::xcorr(rdata(uint32_t(op.iarg(2)), n), rdata(uint32_t(op.iarg(2)) + 1, int(op.iarg(1)))));
    } else if (k == "fftfilt") {
        dsplib::FftFilter f(rand_coeffs(uint32_t(op.iarg(2)), n));
        append(out, f.process(rdata(uint32_t(op.iarg(2)), int(op.iarg(1)))));
    } else if (k == "welch") {
        const auto r = dsplib::welch(rdata(uint32_t(op.iarg(2)), n), int(op.iarg(1)));
        append(out, r.pxx);
    } else if (k == "resample") {
        append(out, dsplib::resample(rdata(uint32_t(op.iarg(3)), n), int(op.iarg(1)), int(op.iarg(2))));
    } else if (k == "kaiser") {
        append(out, dsplib::window::kaiser(n, op.arg(1)));
    } else if (k == "proc") {
        Rng r(mix(uint64_t(op.iarg(0)), 0xC9));
        const ProcSpec s = gen_proc_spec(r, int(r.below(PK_COUNT)), false);
        auto pr = make_proc(s);
        const int g = int(op.iarg(1)) / pr->granule + 1;
        const size_t ns = size_t(g) * size_t(pr->granule);
        std::vector<double> x(ns * size_t(pr->in_width));
        Rng d(mix(uint64_t(op.iarg(0)), 0xDA));
        for (auto& v : x) {
            v = d.normal();
        }
        std::vector<std::vector<double>> ch(static_cast<size_t>(pr->nch));
        const int cut = (g / 2) * pr->granule;
        if (cut > 0) {
            pr->call(x.data(), cut, ch);
        }
        pr->call(x.data() + size_t(cut) * size_t(pr->in_width), int(ns) - cut, ch);
        for (auto& c : ch) {
            out.insert(out.end(), c.begin(), c.end());
        }
    } else if (k == "onin") {
        // a call whose INPUT is an array that other threads are reading at the same time (const access only)
        const InPool& p = g_ins[size_t(op.iarg(0))];
        const int m = p.c.size();
        switch (int(op.iarg(1))) {
        case 0:
            append(out, dsplib::fft(p.c));
            break;
        case 1:
            append(out, dsplib::ifft(p.c));
            break;
        case 2:
            append(out, dsplib::fft(p.r));
            break;
        case 3:
            if (m % 2 == 0) {
                append(out, dsplib::irfft(p.c));
            } else {
                append(out, dsplib::fft(p.c, m + 1));
            }
            break;
        case 4:
            if (m <= 2000) {
                append(out, dsplib::xcorr(p.r, p.r));
            } else {
                append(out, dsplib::hilbert(p.r));
            }
            break;
        case 5: {
            dsplib::FftPlan fp(m);
            dsplib::IfftPlan ip(m);
            append(out, ip.solve(p.c));
            append(out, fp.solve(p.c));
            break;
        }
        case 6: {
            dsplib::FirFilter<real_t> f(rand_coeffs(uint32_t(m), 1 + m % 17));
            append(out, f.process(p.r));
            out.push_back(dsplib::sum(p.r));
            out.push_back(dsplib::rms(p.c));
            append(out, dsplib::abs(p.c));
            break;
        }
        default: {
            const arr_cmplx a = p.c;            // copy-construct from the shared array
            const arr_real b = p.r.slice(0, m, 1);
            append(out, dsplib::conj(a) * 2.0);
            append(out, b + p.r);
            append(out, dsplib::welch(p.r, std::min(m, 64)).pxx);
            break;
        }
        }
    } else if (k == "useproto") {
        // every thread copy-constructs its own processor from ONE prototype (concurrent const access to it) and streams
        // through the copy while other threads stream through theirs: copies are distinct objects
        const Proto& pt = g_protos[size_t(op.iarg(0))];
        std::unique_ptr<Proc> pr = pt.p->value_copy ? pt.p->clone() : nullptr;
        if (!pr) {
            pr = make_proc(pt.spec);   // handle classes (copies share state by design) and non-copyable ones: a fresh object
        }
        const int g = int(op.iarg(1)) / pr->granule + 1;
        const size_t ns = size_t(g) * size_t(pr->granule);
        std::vector<double> x(ns * size_t(pr->in_width));
        Rng d(mix(uint64_t(op.iarg(2)), 0xDB));
        for (auto& v : x) {
            v = d.normal();
        }
        std::vector<std::vector<double>> ch(static_cast<size_t>(pr->nch));
        const int cut = (g / 2) * pr->granule;
        if (cut > 0) {
            pr->call(x.data(), cut, ch);
        }
        pr->call(x.data() + size_t(cut) * size_t(pr->in_width), int(ns) - cut, ch);
        for (auto& c : ch) {
            out.insert(out.end(), c.begin(), c.end());
        }
    } else if (k == "seed") {
        dsplib::rng(int(op.iarg(0)));
    } else if (k == "draw") {
        const int m = int(op.iarg(1));
        switch (int(op.iarg(0))) {
        case 0:
            append(out, dsplib::randn(m));
            break;
        case 1:
            append(out, dsplib::rand(m));
            break;
        case 2: {
            const auto v = dsplib::randi({-5, 1000}, m);
            for (int i = 0; i < v.size(); ++i) {
                out.push_back(v[i]);
            }
            break;
        }
        case 3:
            append(out, dsplib::awgn(rdata(77, m + 1), 10.0));
            break;
        case 4:   // scalar overloads, one call per value
            for (int i = 0; i < m; ++i) {
                out.push_back(dsplib::randn());
            }
            break;
        case 5:
            for (int i = 0; i < m; ++i) {
                out.push_back(dsplib::rand());
            }
            break;
        default:
            for (int i = 0; i < m; ++i) {
                out.push_back(dsplib::randi({-7, 7}));
                out.push_back(dsplib::randi(100));
            }
            break;
        }
    } else if (k == "primes") {
        const auto v = dsplib::primes(uint32_t(n));
        out.push_back(v.size());
        out.push_back(v.size() ? v[v.size() - 1] : 0);
    } else if (k == "factor") {
        const auto v = dsplib::factor(uint32_t(n));
        for (int i = 0; i < v.size(); ++i) {
            out.push_back(v[i]);
        }
    } else if (k == "stft") {
        const int nfft = 1 << int(op.iarg(1));
        const auto fr = dsplib::stft(rdata(uint32_t(op.iarg(2)), n), nfft);
        for (const auto& f : fr) {
            append(out, f);
        }
        if (!fr.empty()) {
            append(out, dsplib::istft(fr, nfft));
        }
    } else if (k == "hilbert") {
        append(out, dsplib::hilbert(rdata(uint32_t(op.iarg(1)), n)));
    } else if (k == "thd") {
        arr_real x = rdata(uint32_t(op.iarg(1)), n) * 0.01;
        for (int i = 0; i < n; ++i) {
            x[i] += std::sin(0.7 * i) + 0.1 * std::sin(1.4 * i);
        }
        const auto r = dsplib::thd(x, 3);
        out.push_back(r.value);
        append(out, r.harmfreq);
        out.push_back(dsplib::sinad(x));
    } else if (k == "czt") {
        append(out, dsplib::czt(cdata(uint32_t(op.iarg(2)), n), int(op.iarg(1)), dsplib::expj(-2 * dsplib::pi / double(op.iarg(1)))));
    } else if (k == "gccphat") {
        const arr_real x = rdata(uint32_t(op.iarg(1)), n);
        const auto r = dsplib::gccphat(dsplib::delayseq(x, 5), x, 8000);
        out.push_back(r.tau);
        append(out, r.corr);
    } else if (k == "finddelay") {
        const arr_real x = rdata(uint32_t(op.iarg(1)), n);
        out.push_back(dsplib::finddelay(x, dsplib::delayseq(x, 7)));
    } else if (k == "mscohere") {
        append(out, dsplib::mscohere(rdata(uint32_t(op.iarg(1)), n), rdata(uint32_t(op.iarg(1)) + 3, n), 32));
    } else if (k == "medfilt") {
        arr_real x = rdata(uint32_t(op.iarg(2)), n);
        append(out, dsplib::medfilt(x, int(op.iarg(1))));
    } else if (k == "shared") {
        const Shared& s = sh[size_t(op.iarg(0))];
        const uint32_t ds = uint32_t(op.iarg(1));
        switch (s.kind) {
        case SK_FFT:
            append(out, s.fft->solve(cdata(ds, s.n)));
            break;
        case SK_FFTR:
            append(out, s.fftr->solve(rdata(ds, s.n)));
            break;
        case SK_IFFT:
            append(out, s.ifft->solve(cdata(ds, s.n)));
            break;
        case SK_IFFTR:
            append(out, s.ifftr->solve(cdata(ds, s.n)));
            break;
        default:
            append(out, s.czt->solve(cdata(ds, s.n)));
            break;
        }
    }
    return out;
}

std::vector<double> guarded(const Op& op, const std::vector<Shared>& sh) {
    try {
        return do_op(op, sh);
    } catch (const std::exception& e) {
        return {-7777.0, double(strlen(e.what()))};
    }
}

int pick_big_len(Rng& r) {
    // sizes beyond the usual test range (anything keyed by "large" plans only shows up here)
    static const int big[] = {16384, 32768, 4099, 8192, 12288, 16385};
    return big[r.below(sizeof(big) / sizeof(big[0]))];
}

int pick_len(Rng& r) {
    static const int lens[] = {8,   16,  64,  256, 1024, 4096, 3,   5,   7,   13,  31,   41,   43,  47,  97,  127,
                               211, 1009, 6,   12,  15,  60,   100, 120, 360, 500, 1000, 1023, 24,  86,  200, 2000};
    return lens[r.below(sizeof(lens) / sizeof(lens[0]))];
}

Plan gen_common(uint64_t seed, const std::string& tier, bool first_use) {
    Rng r(mix(seed, first_use ? 0xC09F : 0xC09));
    const bool big = (tier == "thorough");
    Plan pl;
    pl.engine = first_use ? "C09F" : "C09";
    pl.seed = seed;
    pl.tier = tier;
    const int nthr = int(r.range(2, big ? 16 : 8));
    gen_sched_params(r, pl, nthr);
    // thread exit and cold restart mid-run: a thread that only starts when another one has exited
    for (int t = 1; t < nthr; ++t) {
        if (r.chance(0.12)) {
            pl.p[fmt("start_after_%d", t)] = double(r.below(uint64_t(t)));
        }
    }
    const int nshared = int(r.pick(std::vector<double>{0, 1, 1, 2, 3}));
    for (int s = 0; s < nshared; ++s) {
        Op op;
        op.thr = -1;
        op.kind = "shplan";
        int kind = int(r.below(SK_N));
        int n = pick_len(r);
        if (kind == SK_IFFTR && n % 2) {
            n += 1;
        }
        if (kind == SK_CZT) {
            n = std::min(n, 500);
        }
        op.a = {double(kind), double(n), double(kind == SK_CZT ? r.range(1, 500) : 0)};
        pl.ops.push_back(op);
    }
    const int nin = int(r.pick(std::vector<double>{0, 1, 1, 2}));
    for (int s = 0; s < nin; ++s) {
        Op op;
        op.thr = -1;
        op.kind = "shin";
        op.a = {double(std::max(2, std::min(pick_len(r), 4096))), double(r.seed32())};
        pl.ops.push_back(op);
    }
    const int nproto = int(r.pick(std::vector<double>{0, 0, 1, 1, 2}));
    for (int s = 0; s < nproto; ++s) {
        Op op;
        op.thr = -1;
        op.kind = "proto";
        op.a = {double(r.seed32()), double(r.chance(0.3) ? 0 : r.logi(1, 700))};
        pl.ops.push_back(op);
    }
    for (int t = 0; t < nthr; ++t) {
        const int nops = int(r.range(3, 10));
        for (int i = 0; i < nops; ++i) {
            Op op;
            op.thr = t;
            const double ds = double(r.seed32());
            int c = int(r.below(30));
            if (first_use && i == 0) {
                c = 12;
            }
            if (nshared > 0 && r.chance(0.35)) {
                op.kind = "shared";
                op.a = {double(r.below(uint64_t(nshared))), ds};
            } else if (nin > 0 && r.chance(0.3)) {
                op.kind = "onin";
                op.a = {double(r.below(uint64_t(nin))), double(r.below(8))};
            } else if (nproto > 0 && r.chance(0.3)) {
                op.kind = "useproto";
                op.a = {double(r.below(uint64_t(nproto))), double(r.logi(4, 600)), ds};
            } else if (c < 4) {
                op.kind = "fft";
                op.a = {double(r.chance(0.06) ? pick_big_len(r) : pick_len(r)), ds};
            } else if (c < 6) {
                op.kind = "rfft";
                op.a = {double(pick_len(r)), ds};
            } else if (c < 8) {
                op.kind = "ifft";
                op.a = {double(pick_len(r)), ds};
            } else if (c == 8) {
                op.kind = "irfft";
                int n = pick_len(r);
                n += n % 2;
                op.a = {double(n), ds};
            } else if (c == 9) {
                op.kind = "xcorr";
                op.a = {double(r.logi(2, 600)), double(r.logi(2, 600)), ds};
            } else if (c == 10) {
                op.kind = "fftfilt";
                op.a = {double(r.logi(2, 200)), double(r.logi(10, 1500)), ds};
            } else if (c == 11) {
                op.kind = "welch";
                const int64_t n = r.logi(64, 3000);
                op.a = {double(n), double(r.logi(8, std::min<int64_t>(n, 512))), ds};
            } else if (c == 12) {
                op.kind = "kaiser";
                op.a = {double(r.logi(1, 400)), r.real(0, 12)};
            } else if (c == 13) {
                op.kind = "resample";
                op.a = {double(r.logi(10, 800)), double(r.range(1, 8)), double(r.range(1, 8)), ds};
            } else if (c <= 15) {
                op.kind = "proc";
                op.a = {ds, double(r.logi(4, 600))};
            } else if (c == 16) {
                op.kind = "seed";
                op.a = {double(r.range(0, 1000))};
            } else if (c <= 18) {
                op.kind = "draw";
                op.a = {double(r.below(7)), double(r.chance(0.5) ? r.range(1, 9) : r.logi(1, 200))};
            } else if (c == 19) {
                op.kind = "primes";
                op.a = {double(r.logi(2, 20000))};
            } else if (c == 20 && r.chance(0.5)) {
                op.kind = "pub";
                int kind = int(r.below(SK_N));
                int n = pick_len(r);
                n += (kind == SK_IFFTR) ? n % 2 : 0;
                if (kind == SK_CZT) {
                    n = std::min(n, 400);
                }
                op.a = {double(r.below(3)), double(kind), double(n), double(kind == SK_CZT ? r.range(1, 400) : 0)};
            } else if (c == 29) {
                op.kind = "useslot";
                op.a = {double(r.below(3)), ds};
            } else if (c == 21) {
                op.kind = "stft";
                op.a = {double(r.logi(64, 3000)), double(r.range(3, 8)), ds};
            } else if (c == 22) {
                op.kind = "hilbert";
                op.a = {double(pick_len(r) + 16), ds};
            } else if (c == 23) {
                op.kind = "thd";
                op.a = {double(r.logi(256, 4000)), ds};
            } else if (c == 24) {
                op.kind = "czt";
                op.a = {double(r.logi(2, 300)), double(r.logi(1, 300)), ds};
            } else if (c == 25) {
                op.kind = "gccphat";
                op.a = {double(r.logi(64, 1500)), ds};
            } else if (c == 26) {
                op.kind = "finddelay";
                op.a = {double(r.logi(64, 1500)), ds};
            } else if (c == 27) {
                op.kind = "mscohere";
                op.a = {double(r.logi(128, 2000)), ds};
            } else if (c == 28) {
                op.kind = "medfilt";
                op.a = {double(r.logi(8, 1500)), double(r.range(3, 33)), ds};
            } else {
                op.kind = "factor";
                op.a = {double(r.logi(1, 2000000000))};
            }
            pl.ops.push_back(op);
        }
    }
    return pl;
}

std::vector<double> solve_shared(const Shared& s, uint32_t ds) {
    std::vector<double> out;
    switch (s.kind) {
    case SK_FFT:
        append(out, s.fft->solve(cdata(ds, s.n)));
        break;
    case SK_FFTR:
        append(out, s.fftr->solve(rdata(ds, s.n)));
        break;
    case SK_IFFT:
        append(out, s.ifft->solve(cdata(ds, s.n)));
        break;
    case SK_IFFTR:
        append(out, s.ifftr->solve(cdata(ds, s.n)));
        break;
    default:
        append(out, s.czt->solve(cdata(ds, s.n)));
        break;
    }
    return out;
}

// plans handed from thread to thread at run time: a real mutex gives the hand-over a happens-before edge
struct Slots {
    std::mutex mtx;
    Shared slot[4];
    bool full[4]{false, false, false, false};
};

struct SlotUse {
    int thr;
    size_t op;
    Shared plan;   // copy of the plan object that was used (keeps it alive)
    uint32_t ds;
};

Plan gen(uint64_t seed, const std::string& tier) {
    return gen_common(seed, tier, false);
}

Plan gen_first(uint64_t seed, const std::string& tier) {
    return gen_common(seed, tier, true);
}

Result exec(const Plan& pl) {
    Result res;
    const int nthr = int(std::min<int64_t>(std::max<int64_t>(pl.iparam("nthr", 2), 1), sim::MAX_THREADS - 1));
    std::vector<Shared> shared;
    std::vector<std::vector<Op>> prog(static_cast<size_t>(nthr));
    for (const auto& op : pl.ops) {
        if (op.kind == "shplan") {
            if (!op_valid(op, 0)) {
                res.invalid = true;
                return res;
            }
            Shared s;
            s.kind = int(op.iarg(0));
            s.n = int(op.iarg(1));
            s.m = int(op.iarg(2));
            shared.push_back(s);
        }
    }
    g_ins.clear();
    g_protos.clear();
    set_cur_op("C09 create shared inputs and prototypes");
    for (const auto& op : pl.ops) {
        if (op.kind == "shin" || op.kind == "proto") {
            if (!op_valid(op, 0)) {
                res.invalid = true;
                return res;
            }
            try {
                if (op.kind == "shin") {
                    InPool p;
                    p.c = cdata(uint32_t(op.iarg(1)), int(op.iarg(0)));
                    p.r = rdata(uint32_t(op.iarg(1)), int(op.iarg(0)));
                    p.h = hash_in(p);
                    g_ins.push_back(std::move(p));
                } else {
                    Rng r(mix(uint64_t(op.iarg(0)), 0xC9B));
                    Proto pt;
                    pt.spec = gen_proc_spec(r, int(r.below(PK_COUNT)), false);
                    pt.p = make_proc(pt.spec);
                    const int pre = int(op.iarg(1)) / pt.p->granule * pt.p->granule;
                    if (pre > 0) {
                        // the prototype has already been running: its copies start from a non-trivial state
                        std::vector<double> x(size_t(pre) * size_t(pt.p->in_width));
                        Rng d(mix(uint64_t(op.iarg(0)), 0xDC));
                        for (auto& v : x) {
                            v = d.normal();
                        }
                        std::vector<std::vector<double>> ch(static_cast<size_t>(pt.p->nch));
                        pt.p->call(x.data(), pre, ch);
                    }
                    g_protos.push_back(std::move(pt));
                }
            } catch (const std::exception&) {
                res.invalid = true;
                return res;
            }
        }
    }
    for (const auto& op : pl.ops) {
        if (op.kind == "shplan" || op.kind == "shin" || op.kind == "proto") {
            continue;
        }
        if (!op_valid(op, shared.size()) || op.thr < 0 || op.thr >= nthr) {
            res.invalid = true;
            return res;
        }
        prog[size_t(op.thr)].push_back(op);
    }
    if (pl.ops.empty()) {
        res.invalid = true;
        return res;
    }
    // shared plan objects are created by the controller BEFORE the threads exist (real happens-before)
    set_cur_op("C09 create shared plans");
    try {
        for (auto& s : shared) {
            make_shared_plan(s);
        }
    } catch (const std::exception&) {
        res.invalid = true;
        return res;
    }
    std::vector<std::vector<std::vector<double>>> got(static_cast<size_t>(nthr));
    SimThreads st;
    st.configure(pl, nthr);
    int restarts = 0;
    for (int t = 1; t < nthr; ++t) {
        const int64_t dep = pl.iparam(fmt("start_after_%d", t), -1);
        if (dep >= 0 && dep < t) {
            st.cfg.start_after[t] = int(dep);
            ++restarts;
        }
    }
    Slots slots;
    std::vector<std::vector<SlotUse>> uses(static_cast<size_t>(nthr));
    constexpr uint64_t THREAD_EDGE_BUDGET = 400000000ull;   // a thread of this engine executes at most ~5e7 edges (about 3e7 edges/s under ASan)
    st.run([&](int me) {
        sim::set_edge_budget(THREAD_EDGE_BUDGET);
        for (size_t i = 0; i < prog[size_t(me)].size(); ++i) {
            const Op& op = prog[size_t(me)][i];
            set_cur_opf("C09 thread %d op %zu %s", me, i, op.kind.c_str());
            if (op.kind == "pub") {
                Shared s;
                s.kind = int(op.iarg(1));
                s.n = int(op.iarg(2));
                s.m = int(op.iarg(3));
                try {
                    make_shared_plan(s);   // built from THIS thread's plan caches
                    std::lock_guard<std::mutex> lk(slots.mtx);
                    slots.slot[op.iarg(0)] = s;
                    slots.full[op.iarg(0)] = true;
                } catch (const std::exception&) {
                }
                got[size_t(me)].push_back({});
            } else if (op.kind == "useslot") {
                Shared s;
                bool have = false;
                {
                    std::lock_guard<std::mutex> lk(slots.mtx);
                    if (slots.full[op.iarg(0)]) {
                        s = slots.slot[op.iarg(0)];
                        have = true;
                    }
                }
                if (have) {
                    std::vector<double> r;
                    try {
                        r = solve_shared(s, uint32_t(op.iarg(1)));
                    } catch (const std::exception& e) {
                        r = {-7777.0, double(strlen(e.what()))};
                    }
                    got[size_t(me)].push_back(r);
                    uses[size_t(me)].push_back(SlotUse{me, i, s, uint32_t(op.iarg(1))});
                } else {
                    got[size_t(me)].push_back({});
                }
            } else {
                got[size_t(me)].push_back(guarded(op, shared));
            }
            sim::op_boundary();
        }
    });
    st.collect(res);
    for (const auto& e : st.errors) {
        if (!e.empty()) {
            res.fail("C09:harness-exception", e);
        }
    }
    // reference: each thread's op list run alone in a fresh thread
    int64_t shared_solves = 0;
    std::map<int, std::set<int>> users;
    for (int t = 0; t < nthr && res.ok; ++t) {
        std::vector<std::vector<double>> ref;
        run_isolated([&] {
            sim::set_edge_budget(THREAD_EDGE_BUDGET);
            set_cur_opf("C09 reference run of thread %d alone", t);
            for (const auto& op : prog[size_t(t)]) {
                if (op.kind == "pub" || op.kind == "useslot") {
                    ref.push_back({});   // what a slot holds depends on the schedule: checked separately below
                } else {
                    ref.push_back(guarded(op, shared));
                }
            }
        });
        for (size_t i = 0; i < ref.size(); ++i) {
            const Op& op = prog[size_t(t)][i];
            if (op.kind == "pub" || op.kind == "useslot") {
                continue;
            }
            const bool exact = (op.kind == "draw" || op.kind == "seed" || op.kind == "primes" || op.kind == "factor");
            const Cmp c = compare_stream(got[size_t(t)][i], ref[i], exact ? 0.0 : 1e-9);
            if (op.kind == "shared") {
                ++shared_solves;
                users[int(op.iarg(0))].insert(t);
            }
            res.digest.bytes(got[size_t(t)][i].data(), got[size_t(t)][i].size() * sizeof(double));
            if (!c.ok) {
                std::string what = op.kind;
                if (op.kind == "shared") {
                    const Shared& s = shared[size_t(op.iarg(0))];
                    what = fmt("solve on shared plan #%lld (kind %d, n=%d)", static_cast<long long>(op.iarg(0)), s.kind, s.n);
                }
                res.fail(std::string("C09:result-differs:") + op.kind,
                         fmt("thread %d of %d, op %zu (%s, arg %lld): result differs from the same thread's program run alone at element %zu: %s", t, nthr, i, what.c_str(),
                             static_cast<long long>(op.iarg(0)), c.at, c.what.c_str()));
                break;
            }
        }
    }
    // plans handed over at run time: whoever created the plan, the result must be that of a fresh plan of the same kind and size
    int64_t slot_uses = 0;
    for (int t = 0; t < nthr && res.ok; ++t) {
        for (const auto& u : uses[size_t(t)]) {
            std::vector<double> ref;
            run_isolated([&] {
                Shared f;
                f.kind = u.plan.kind;
                f.n = u.plan.n;
                f.m = u.plan.m;
                try {
                    make_shared_plan(f);
                    ref = solve_shared(f, u.ds);
                } catch (const std::exception& e) {
                    ref = {-7777.0, double(strlen(e.what()))};
                }
            });
            ++slot_uses;
            const Cmp c = compare_stream(got[size_t(t)][u.op], ref, 1e-9);
            if (!c.ok) {
                res.fail("C09:result-differs:handed-over-plan", fmt("thread %d op %zu: solve through a plan (kind %d, n=%d) handed over from another thread differs from a fresh plan at element %zu: %s",
                                                                  t, u.op, u.plan.kind, u.plan.n, c.at, c.what.c_str()));
                break;
            }
        }
    }
    for (size_t j = 0; j < g_ins.size() && res.ok; ++j) {
        if (hash_in(g_ins[j]) != g_ins[j].h) {
            res.fail("C09:shared-input-modified", fmt("read-only input array #%zu (n=%d), passed by const reference to library calls from several threads, has changed", j, g_ins[j].c.size()));
        }
    }
    {
        std::map<int, std::set<int>> inusers, protousers;
        for (int t = 0; t < nthr; ++t) {
            for (const auto& op : prog[size_t(t)]) {
                if (op.kind == "onin") {
                    inusers[int(op.iarg(0))].insert(t);
                } else if (op.kind == "useproto") {
                    protousers[int(op.iarg(0))].insert(t);
                }
            }
        }
        int a = 0, b = 0;
        for (const auto& kv : inusers) {
            a += (kv.second.size() >= 2);
        }
        for (const auto& kv : protousers) {
            b += (kv.second.size() >= 2);
        }
        res.inc("probe.const_input_array_used_by_2plus_threads", a);
        res.inc("probe.prototype_copied_and_run_by_2plus_threads", b);
    }
    g_protos.clear();
    g_ins.clear();
    res.inc("probe.plan_handed_over_between_running_threads", slot_uses);
    int contended = 0;
    for (const auto& kv : users) {
        contended += (kv.second.size() >= 2);
    }
    res.inc("sim.threads", nthr);
    res.inc("sim.ops", int64_t(pl.ops.size()));
    res.inc("fault.thread_exit_and_cold_restart", restarts);
    res.inc("probe.shared_plan_solved_by_2plus_threads", contended);
    res.inc("sim.shared_solves", shared_solves);
    for (const auto& s : shared) {
        res.inc(fmt("shared_kind_%d", s.kind));
    }
    if (res.sched.size() > 1) {
        res.sigs.push_back(res.sched_hash ^ res.digest.h);
    }
    res.sample = fmt("%d threads, %zu shared plans, %zu ops, policy %lld, %zu switches", nthr, shared.size(), pl.ops.size(), static_cast<long long>(pl.iparam("policy", 0)),
                     res.sched.size());
    return res;
}

EngineReg reg({"C09", gen, exec, "concurrent use under a seeded scheduler: shared plans, per-thread caches and engines, thread exit/restart"});
EngineReg regf({"C09F", gen_first, exec, "same, one run per process without warm-up: first use of the guarded static is contended"});

}   // namespace
}   // namespace vf
