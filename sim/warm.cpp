// One-time process-global initialisations (guarded function-local statics of the library) are
// forced before the first run: every run of a long-lived worker then executes exactly the code a
// replay in a fresh process executes.  (The first-use race for that guard is still exercised:
// engine C09 runs its first-use scenario in a dedicated fresh process mode.)
#include "common.h"
#include <dsplib.h>

namespace vf {
void warm_up() {
    if (getenv("VF_NO_WARMUP")) {
        return;
    }
    volatile double sink = dsplib::window::kaiser(8, 1.0)[0];
    (void)sink;
}
}   // namespace vf
