// C14 — Tuner and HilbertFilter over simulated time (hilbert() itself is a pure function: not decided).
// The simulator owns the sample clock (streams run past several wraps of the tuner's internal
// counter) and the framing of the stream.  Oracles: closed form at the ABSOLUTE sample index;
// exact delayed copy in the real part of HilbertFilter.
#include "dsp_util.h"
#include "simrun.h"
#include "histcalls.h"

#include <memory>

namespace vf {
namespace {

// op "tuner": fs f N dseed fstyle fseed fparam
// op "hilbert": flen tw N dseed fstyle fseed fparam

Plan gen(uint64_t seed, const std::string& tier) {
    Rng r(mix(seed, 0xC14));
    const bool big = (tier == "thorough");
    Plan pl;
    pl.engine = "C14";
    pl.seed = seed;
    pl.tier = tier;
    const int nops = int(r.range(1, 3));
    for (int i = 0; i < nops; ++i) {
        Op op;
        if (r.chance(0.7)) {
            op.kind = "tuner";
            int64_t fs = r.chance(0.2) ? r.range(8, 40) : r.logi(8, big ? 100000 : 20000);
            const bool huge = r.chance(0.04);
            if (huge) {
                fs = r.range(65537, 100000);   // products f*k beyond 2^31 (32-bit phase arithmetic would wrap)
            }
            double f;
            const int c = int(r.below(8));
            const int64_t half = fs / 2;
            if (huge) {
                f = double((r.chance(0.5) ? 1 : -1) * r.range(half - 3000, half));
            } else if (c == 0) {
                f = 0;
            } else if (c == 1) {
                f = double(r.chance(0.5) ? half : -half);
            } else if (c <= 3) {
                f = double(r.range(-half, half));
            } else if (c == 4) {
                f = double(r.range(-half, half - 1)) + 0.5;   // half-integer: the wrap flips the sign
            } else if (c == 5) {
                f = double(r.range(-half, half - 1)) + r.pick(std::vector<double>{0.25, 0.125, 0.1, 1.0 / 3});
            } else {
                f = r.real(-double(half), double(half));
            }
            const int64_t n = int64_t(r.real(2.0, 6.0) * double(fs)) + r.range(0, fs);
            const int style = int(r.pick(std::vector<double>{FS_HEAVY, FS_HEAVY, FS_NEARMEM, FS_FIXED, FS_SPLIT2, FS_ONES}));
            const int64_t nn = (style == FS_ONES) ? std::min<int64_t>(n, 3 * fs + 7 > 20000 ? 20000 : 3 * fs + 7) : n;
            int64_t fparam = 0;
            if (style == FS_FIXED) {
                fparam = r.chance(0.4) ? fs : r.logi(1, nn);   // frames of exactly fs samples: wrap on every boundary
            } else if (style == FS_SPLIT2) {
                fparam = r.chance(0.5) ? fs : r.range(1, nn - 1);
            }
            op.a = {double(fs), f, double(nn), double(r.seed32()), double(style), double(r.seed32()), double(fparam)};
            if (r.chance(0.25) && i + 1 < nops) {
                // a sibling instance that differs only in the fractional part of f (instances must not influence one another)
                pl.ops.push_back(op);
                ++i;
                const double fi = std::trunc(f);
                double f2 = fi + r.pick(std::vector<double>{0.0, 0.25, 0.5, 0.75}) * ((f < 0 || fi <= -double(half)) ? -1.0 : 1.0);
                if (std::fabs(f2) > double(half)) {
                    f2 = fi;
                }
                op.a[1] = f2;
                op.a[3] = double(r.seed32());
            }
        } else {
            op.kind = "hilbert";
            const int64_t flen = r.range(31, big ? 401 : 201);
            const double tw = r.logu(0.005, 0.1);
            const int64_t n = r.logi(2, big ? 20000 : 5000);
            const int style = int(r.pick(std::vector<double>{FS_HEAVY, FS_NEARMEM, FS_NEARMEM, FS_FIXED, FS_SPLIT2, FS_ONES, FS_ONESHOT}));
            int64_t fparam = 0;
            if (style == FS_FIXED) {
                fparam = r.logi(1, n);
            } else if (style == FS_SPLIT2) {
                fparam = r.range(1, std::max<int64_t>(1, n - 1));
            }
            op.a = {double(flen), tw, double(n), double(r.seed32()), double(style), double(r.seed32()), double(fparam)};
        }
        pl.ops.push_back(op);
    }
    if (r.chance(0.25)) {
        Op h;
        h.kind = "hist";
        h.a = {double(r.seed32()), double(r.range(2, 8))};
        pl.ops.push_back(h);
    }
    return pl;
}

long double frac_cycles(double f, int64_t k, int64_t fs) {
    // f*k/fs modulo 1, evaluated so that the reduction is exact for the integer part of f
    const double fi = std::trunc(f);
    const double ff = f - fi;   // exact
    const int64_t fii = int64_t(fi);
    const __int128 prod = __int128(fii) * __int128(k);
    int64_t rem = int64_t(prod % __int128(fs));
    long double c = static_cast<long double>(rem) / static_cast<long double>(fs);
    c += static_cast<long double>(ff) * static_cast<long double>(k) / static_cast<long double>(fs);
    c -= std::floor(c);
    return c;
}

void run_tuner(const Op& op, Result& res) {
    const int64_t fs = op.iarg(0);
    const double f = op.arg(1);
    const int64_t n = op.iarg(2);
    if (fs < 1 || fs > 10000000 || !std::isfinite(f) || std::fabs(f) > double(fs / 2) || n < 1 || n > 50000000) {
        res.invalid = true;
        return;
    }
    const auto frames = make_framing(int(op.iarg(4)), uint32_t(op.iarg(5)), n, op.iarg(6), fs, fs);
    const auto xr = gen_signal(uint32_t(op.iarg(3)), size_t(n));
    const auto xi = gen_signal(uint32_t(op.iarg(3)) ^ 0x55aau, size_t(n));
    set_cur_opf("C14 Tuner fs=%lld f=%.6g n=%lld", static_cast<long long>(fs), f, static_cast<long long>(n));
    dsplib::Tuner tuner(int(fs), f);
    // object-lifetime event: at one frame boundary a COPY of the tuner is made and fed the same frames from then on
    std::unique_ptr<dsplib::Tuner> twin;
    const uint64_t hz = mix(uint64_t(op.iarg(5)), 0x7717);
    const size_t copy_at = (frames.size() >= 2 && hz % 4 == 0) ? 1 + size_t((hz >> 8) % (frames.size() - 1)) : size_t(-1);
    size_t fidx = 0;
    int64_t k = 0;
    bool wrap_inside = false;
    bool wrap_on_boundary = false;
    for (int fr : frames) {
        arr_cmplx x(fr);
        for (int i = 0; i < fr; ++i) {
            x[i] = cmplx_t{xr[size_t(k + i)], xi[size_t(k + i)]};
        }
        if (fidx++ == copy_at) {
            twin = std::make_unique<dsplib::Tuner>(tuner);
            res.inc("fault.copied_mid_stream");
        }
        arr_cmplx y;
        try {
            if (twin) {
                const arr_cmplx y2 = twin->process(x);
                y = tuner.process(x);
                if (y2.size() != y.size() || std::memcmp(y2.data(), y.data(), size_t(y.size()) * sizeof(cmplx_t)) != 0) {
                    res.fail("C14:tuner-copy", fmt("Tuner(fs=%lld, f=%.17g): a copy made at sample %lld and fed the same frames deviates from the original", static_cast<long long>(fs), f,
                                                   static_cast<long long>(k)));
                    return;
                }
            } else {
                y = tuner.process(x);
            }
        } catch (const std::exception& e) {
            res.fail("C14:tuner-exception", std::string("Tuner::process threw: ") + e.what());
            return;
        }
        if (y.size() != fr) {
            res.fail("C14:tuner-length", fmt("Tuner::process returned %d samples for a frame of %d", y.size(), fr));
            return;
        }
        for (int i = 0; i < fr; ++i) {
            const int64_t kk = k + i;
            const long double ph = 6.283185307179586476925286766559L * frac_cycles(f, kk, fs);
            const long double c = cosl(ph);
            const long double s = sinl(ph);
            const long double er = x[i].re * c - x[i].im * s;
            const long double ei = x[i].re * s + x[i].im * c;
            const double mag = std::sqrt(x[i].re * x[i].re + x[i].im * x[i].im);
            const double err = std::sqrt(double((y[i].re - er) * (y[i].re - er) + (y[i].im - ei) * (y[i].im - ei)));
            if (!(err <= 1e-7 * mag + 1e-300)) {
                res.fail("C14:tuner-phase",
                         fmt("Tuner(fs=%lld, f=%.17g): output sample k=%lld is (%.12g,%.12g), x[k]*exp(2*pi*i*f*k/fs) is (%.12g,%.12g), |x[k]|=%.6g; %zu frames", static_cast<long long>(fs),
                             f, static_cast<long long>(kk), y[i].re, y[i].im, double(er), double(ei), mag, frames.size()));
                return;
            }
            res.digest.f64(y[i].re);
            res.digest.f64(y[i].im);
        }
        // where do multiples of fs fall relative to the frame?
        const int64_t first_mult = ((k / fs) + 1) * fs;
        if (first_mult < k + fr) {
            wrap_inside = true;
        }
        if ((k + fr) % fs == 0) {
            wrap_on_boundary = true;
        }
        k += fr;
    }
    const int64_t wraps = n / fs;
    res.inc("sim.samples", n);
    res.inc("sim.tuner_streams");
    res.inc("fault.segment", int64_t(frames.size()) - 1);
    res.inc("probe.tuner_counter_wrapped_ge1", wraps >= 1);
    res.inc("probe.tuner_counter_wrapped_ge3", wraps >= 3);
    res.inc("probe.tuner_wrap_inside_frame", wrap_inside);
    res.inc("probe.tuner_wrap_on_frame_boundary", wrap_on_boundary);
    res.inc("probe.tuner_fractional_freq", f != std::trunc(f));
    int lb = 0;
    for (int64_t m = fs; m > 1; m >>= 1) {
        ++lb;
    }
    Hash h;
    h.u64(1);
    h.u64(uint64_t(lb));
    h.u64(uint64_t(f != std::trunc(f)) | uint64_t(f < 0) << 1 | uint64_t(wrap_inside) << 2 | uint64_t(wrap_on_boundary) << 3 | uint64_t(std::min<int64_t>(wraps, 6)) << 4);
    h.u64(uint64_t(op.iarg(4)));
    if (wraps >= 1 && frames.size() > 1) {
        res.sigs.push_back(h.h);
    }
}

void run_hilbert(const Op& op, Result& res) {
    const int64_t flen = op.iarg(0);
    const double tw = op.arg(1);
    const int64_t n = op.iarg(2);
    if (flen < 3 || flen > 5001 || !(tw >= 0.001 && tw <= 0.2) || n < 1 || n > 5000000) {
        res.invalid = true;
        return;
    }
    set_cur_opf("C14 HilbertFilter flen=%lld tw=%.4g n=%lld", static_cast<long long>(flen), tw, static_cast<long long>(n));
    dsplib::HilbertFilter flt(int(flen), tw);
    const int M = flt.impz().size();
    const int delay = M / 2;
    const auto frames = make_framing(int(op.iarg(4)), uint32_t(op.iarg(5)), n, op.iarg(6), M - 1, M);
    const auto x = gen_signal(uint32_t(op.iarg(3)), size_t(n));
    int64_t k = 0;
    bool lt_mem = false;
    // the imaginary branch across calls: sample kk must be the convolution of the filter's own taps (impz()) with the TRUE
    // input history, whatever the framing and whatever the input was (silence, repeats, bursts); the taps themselves are
    // a design result and not judged here
    const arr_real taps = flt.impz();
    long double hsum = 0;
    for (int j = 0; j < M; ++j) {
        hsum += std::fabs(static_cast<long double>(taps[j]));
    }
    double xmax = 1e-300;
    for (double v : x) {
        xmax = std::max(xmax, std::fabs(v));
    }
    const int64_t stride = std::max<int64_t>(1, (n * int64_t(M)) / 8000000);
    int64_t im_checked = 0;
    std::unique_ptr<dsplib::HilbertFilter> twin;
    const uint64_t hz = mix(uint64_t(op.iarg(5)), 0x4117);
    const size_t copy_at = (frames.size() >= 2 && hz % 4 == 0) ? 1 + size_t((hz >> 8) % (frames.size() - 1)) : size_t(-1);
    size_t fidx = 0;
    for (int fr : frames) {
        lt_mem |= (fr < delay);
        if (fidx++ == copy_at) {
            twin = std::make_unique<dsplib::HilbertFilter>(flt);
            res.inc("fault.copied_mid_stream");
        }
        arr_cmplx y;
        try {
            if (twin) {
                // the copy is fed first: if copies shared state, the original's delay line would be advanced twice
                const arr_cmplx y2 = twin->process(to_arr(x.data() + k, size_t(fr)));
                y = flt.process(to_arr(x.data() + k, size_t(fr)));
                if (y2.size() != y.size() || std::memcmp(y2.data(), y.data(), size_t(y.size()) * sizeof(cmplx_t)) != 0) {
                    res.fail("C14:hilbert-copy", fmt("HilbertFilter(flen=%lld): a copy made at sample %lld and fed the same frames deviates from the original", static_cast<long long>(flen),
                                                     static_cast<long long>(k)));
                    return;
                }
            } else {
                y = flt.process(to_arr(x.data() + k, size_t(fr)));
            }
        } catch (const std::exception& e) {
            res.fail("C14:hilbert-exception", std::string("HilbertFilter::process threw: ") + e.what());
            return;
        }
        if (y.size() != fr) {
            res.fail("C14:hilbert-length", fmt("HilbertFilter::process returned %d samples for a frame of %d", y.size(), fr));
            return;
        }
        for (int i = 0; i < fr; ++i) {
            const int64_t kk = k + i;
            const double want = (kk >= delay) ? x[size_t(kk - delay)] : 0.0;
            if (!(y[i].re == want)) {
                res.fail("C14:hilbert-delay", fmt("HilbertFilter(flen=%lld, tw=%.6g), M=%d: real part of output sample %lld is %.17g, input delayed by M/2=%d is %.17g; %zu frames",
                                                  static_cast<long long>(flen), tw, M, static_cast<long long>(kk), y[i].re, delay, want, frames.size()));
                return;
            }
            res.digest.f64(y[i].im);
            if (stride == 1 || kk % stride == 0 || i == 0 || i == fr - 1) {
                long double acc = 0;
                for (int j = 0; j < M && j <= kk; ++j) {
                    acc += static_cast<long double>(taps[j]) * static_cast<long double>(x[size_t(kk - j)]);
                }
                ++im_checked;
                if (!(std::fabs(static_cast<double>(acc) - y[i].im) <= 1e-9 * static_cast<double>(hsum) * xmax)) {
                    res.fail("C14:hilbert-imag-stream", fmt("HilbertFilter(flen=%lld, tw=%.6g), M=%d: imaginary part of output sample %lld (sample %d of a frame of %d) is %.17g, its own taps "
                                                            "applied to the input history give %.17g; %zu frames",
                                                            static_cast<long long>(flen), tw, M, static_cast<long long>(kk), i, fr, y[i].im, static_cast<double>(acc), frames.size()));
                    return;
                }
            }
        }
        k += fr;
    }
    res.inc("sim.samples", n);
    res.inc("sim.hilbert_streams");
    res.inc("sim.hilbert_imag_samples_checked", im_checked);
    res.inc("fault.segment", int64_t(frames.size()) - 1);
    res.inc("probe.hilbert_frame_shorter_than_delay", lt_mem);
    res.inc("probe.hilbert_even_length_request", flen % 2 == 0);
    Hash h;
    h.u64(2);
    h.u64(uint64_t(flen / 16));
    h.u64(uint64_t(flen % 2) | uint64_t(lt_mem) << 1);
    h.u64(uint64_t(op.iarg(4)));
    if (frames.size() > 1) {
        res.sigs.push_back(h.h);
    }
}

Result exec(const Plan& pl) {
    Result res;
    if (pl.ops.empty()) {
        res.invalid = true;
        return res;
    }
    for (const auto& op : pl.ops) {
        if (op.kind == "tuner" && op.a.size() >= 7) {
            run_tuner(op, res);
        } else if (op.kind == "hilbert" && op.a.size() >= 7) {
            run_hilbert(op, res);
        } else if (op.kind == "hist" && op.a.size() >= 2) {
            // hilbert(x) / hilbert(x, n) call histories: history independence only (their numerical definition is not decided here)
            run_history_calls("C14", HF_HILBERT, uint32_t(op.iarg(0)), int(op.iarg(1)), res);
        } else {
            res.invalid = true;
        }
        if (!res.ok || res.invalid) {
            break;
        }
    }
    if (res.invalid) {
        res.ok = true;
        res.vclass.clear();
    }
    const Op& o = pl.ops[0];
    res.sample = fmt("%zu streams; first: %s a0=%.6g a1=%.6g n=%lld style=%lld", pl.ops.size(), o.kind.c_str(), o.arg(0), o.arg(1), static_cast<long long>(o.iarg(2)),
                     static_cast<long long>(o.iarg(4)));
    return res;
}

EngineReg reg({"C14", gen, exec, "Tuner phase continuity and HilbertFilter delay over simulated time"});

}   // namespace
}   // namespace vf
