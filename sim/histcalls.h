// Call histories of the free functions of a property: every result must equal the result of the SAME call made in a fresh
// thread (empty per-thread caches, work buffers, memo tables). A function of its arguments that quietly keeps state between
// calls - a padded work buffer that is not cleared, a window cached under the wrong key - fails this, whatever it computes.
#pragma once
#include "dsp_util.h"
#include "simrun.h"

#include <dsplib/gccphat.h>

namespace vf {

enum HistFamily : int { HF_HILBERT = 0, HF_DELAY = 1, HF_MEASURE = 2 };

namespace histdetail {

inline arr_real hsig(uint32_t seed, int n) {
    Rng r(mix(seed, 0x4151));
    arr_real x(n);
    for (int i = 0; i < n; ++i) {
        x[i] = r.normal();
    }
    return x;
}

inline arr_real tone(uint32_t seed, int n) {
    Rng r(mix(seed, 0x7043));
    const double f = r.real(0.03, 0.12);
    const double ph = r.real(0, 6.28);
    arr_real x(n);
    for (int i = 0; i < n; ++i) {
        x[i] = std::sin(6.283185307179586 * f * i + ph) + 0.05 * std::sin(6.283185307179586 * 2 * f * i) + 0.02 * std::sin(6.283185307179586 * 3 * f * i) + 1e-4 * r.normal();
    }
    return x;
}

// lengths that share an internal power-of-two bucket, biased to "long first, then shorter"
inline std::vector<int> bucket_lengths(Rng& r, int k, int lo_pow, int hi_pow) {
    std::vector<int> v;
    const int p = int(r.range(lo_pow, hi_pow));
    const int top = 1 << p;
    for (int i = 0; i < k; ++i) {
        const int c = int(r.below(4));
        v.push_back(c == 0 ? top : c == 1 ? top / 2 + 1 + int(r.below(uint64_t(top / 2 - 1))) : c == 2 ? top - int(r.below(uint64_t(top / 4))) : top / 2 + 1);
    }
    if (r.chance(0.7)) {
        std::sort(v.begin(), v.end(), [](int a, int b) { return a > b; });
    }
    return v;
}

struct Call {
    int kind;
    int n;
    int m;
    uint32_t seed;
};

inline std::vector<double> do_call(int family, const Call& c) {
    std::vector<double> out;
    try {
        if (family == HF_HILBERT) {
            if (c.kind == 0) {
                append(out, dsplib::hilbert(hsig(c.seed, c.n)));
            } else {
                append(out, dsplib::hilbert(hsig(c.seed, c.n), c.m));   // pad or truncate to m
            }
        } else if (family == HF_DELAY) {
            const arr_real x = hsig(c.seed, c.n);
            const int d = c.m;
            if (c.kind == 0) {
                out.push_back(dsplib::finddelay(x, dsplib::delayseq(x, d)));
            } else if (c.kind == 1) {
                arr_cmplx z(c.n);
                const arr_real y = hsig(c.seed + 1, c.n);
                for (int i = 0; i < c.n; ++i) {
                    z[i] = cmplx_t{x[i], y[i]};
                }
                arr_cmplx zd(c.n);
                for (int i = 0; i < c.n; ++i) {
                    zd[i] = (i - d >= 0 && i - d < c.n) ? z[i - d] : cmplx_t{0, 0};
                }
                out.push_back(dsplib::finddelay(z, zd));
            } else if (c.kind == 2) {
                const auto g = dsplib::gccphat(dsplib::delayseq(x, d), x, 8000);
                out.push_back(g.tau);
            } else {
                append(out, dsplib::xcorr(x, dsplib::delayseq(x, d)));
            }
        } else {
            const arr_real x = tone(c.seed, c.n);
            if (c.kind == 0) {
                const auto t = dsplib::thd(x, 4);
                out.push_back(t.value);
                append(out, t.harmfreq);
            } else if (c.kind == 1) {
                out.push_back(dsplib::sinad(x));
            } else if (c.kind == 2) {
                out.push_back(dsplib::snr(x, 4));
            } else {
                dsplib::rng(int(c.seed % 1000));
                append(out, dsplib::awgn(x, 20.0));
            }
        }
    } catch (const std::exception& e) {
        out = {-7777.0, double(strlen(e.what()))};
    }
    return out;
}

}   // namespace histdetail

// runs k calls of `family` in the calling thread, then checks each against a fresh thread; failure class `<pid>:history-dependent-function`
inline void run_history_calls(const char* pid, int family, uint32_t seed, int k, Result& res) {
    using namespace histdetail;
    Rng r(mix(seed, 0x4157 + uint64_t(family)));
    k = std::max(2, std::min(k, 12));
    std::vector<Call> calls;
    if (family == HF_HILBERT) {
        const auto len = bucket_lengths(r, k, 4, 9);
        const int m = len[0];
        for (int i = 0; i < k; ++i) {
            const int c = int(r.below(3));
            calls.push_back(Call{c == 0 ? 0 : 1, std::max(3, c == 2 ? len[size_t(i)] / 2 + 3 : len[size_t(i)]), r.chance(0.7) ? m : std::max(3, len[size_t(i)] + int(r.range(-5, 40))), r.seed32()});
        }
    } else if (family == HF_DELAY) {
        const auto len = bucket_lengths(r, k, 7, 11);
        for (int i = 0; i < k; ++i) {
            const int n = std::max(128, len[size_t(i)]);
            calls.push_back(Call{int(r.below(4)), n, int(r.range(-n / 4, n / 4)), r.seed32()});
        }
    } else {
        const auto len = bucket_lengths(r, k, 11, 13);
        for (int i = 0; i < k; ++i) {
            calls.push_back(Call{int(r.below(4)), std::max(1030, len[size_t(i)]), 0, r.seed32()});
        }
    }
    std::vector<std::vector<double>> got;
    set_cur_opf("%s history of %d free-function calls (family %d)", pid, k, family);
    for (const auto& c : calls) {
        got.push_back(do_call(family, c));
    }
    for (size_t i = 0; i < calls.size(); ++i) {
        std::vector<double> ref;
        const Call c = calls[i];
        run_isolated([&] { ref = do_call(family, c); });
        const Cmp cmp = compare_stream(got[i], ref, 1e-9);
        if (!cmp.ok) {
            static const char* names[3][4] = {{"hilbert(x)", "hilbert(x, n)", "hilbert(x, n)", "hilbert(x, n)"}, {"finddelay (real)", "finddelay (complex)", "gccphat", "xcorr"},
                                              {"thd", "sinad", "snr", "rng + awgn"}};
            res.fail(std::string(pid) + ":history-dependent-function",
                     fmt("call %zu of a history of %zu: %s on %d samples (parameter %d) returns something else than the same call in a fresh thread: element %zu: %s; previous call had %d samples", i,
                         calls.size(), names[family][c.kind & 3], c.n, c.m, cmp.at, cmp.what.c_str(), i ? calls[i - 1].n : 0));
            return;
        }
        res.digest.bytes(got[i].data(), got[i].size() * sizeof(double));
    }
    res.inc("probe.free_function_history_checked");
    res.inc("sim.free_function_calls", int64_t(calls.size()));
}

}   // namespace vf
