// C10 — transform results do not depend on call history; plan caching is transparent.
// The simulator owns the request history of each thread, the lifetimes of kept plan objects, thread exit
// with plans surviving in a successor thread, and (through three builds) the cache-size knob.
// Oracles after every op: (a) a reference LRU driven in lock-step by the cache-access events the hook
// reports equals the hook's key list; (b) every result equals the result of the same call in a fresh thread.
#include "dsp_util.h"
#include "simrun.h"

#include <algorithm>
#include <map>
#include <optional>

namespace dsplib {
namespace verif {
void set_cache_observer(void (*fn)(int cache_id, int n, int event));
std::vector<int> fft_cache_keys();
std::vector<int> rfft_cache_keys();
int fft_cache_capacity();
}   // namespace verif
}   // namespace dsplib

namespace vf {
namespace {

// ops (args):  fft n ds | rfft n ds | ifft n ds | irfft n ds | fftn m n ds | xcorr n1 n2 ds | hilbert n ds | fftfilt hlen n ds | czt n m aidx ds
//              mkplan slot kind n m | useplan slot ds | drop slot
constexpr int NSLOTS = 4;
enum { PK_FFT = 0, PK_FFTR, PK_IFFT, PK_IFFTR, PK_CZT, PK_N };

struct Lru {
    std::vector<int> keys;   // front = most recently used
    bool has(int n) const {
        return std::find(keys.begin(), keys.end(), n) != keys.end();
    }
    void touch(int n) {
        keys.erase(std::find(keys.begin(), keys.end(), n));
        keys.insert(keys.begin(), n);
    }
};

struct Model {
    Lru c[2];
    int capacity{4};
    std::string error;
    int misses_top{0};     // miss events of the current op
    int depth{0};
    int64_t n_evict{0}, n_reinsert{0}, n_subhit{0}, n_hit{0}, n_miss{0}, n_insert{0};
    std::set<int> evicted[2];

    bool seen[2]{false, false};
    int64_t n_request_moved{0};
    int first_id{-1}, first_n{0};                       // first cache access of the current op (its top-level length)
    std::map<std::string, std::pair<int, int>> learned;   // request -> the (cache, length) it asked for when it last consulted a cache

    // request level: a completed top-level request is a USE of the length it stands for, whether or not the implementation
    // consulted its cache this time (a shortcut in front of the cache must not make the cache forget the use). WHICH
    // (cache, length) a request stands for is not assumed: it is learned from the first cache access the same request made
    // when it last consulted a cache in this thread. On an implementation that looks every request up, the events have
    // already put that length in front and this is a no-op.
    void request(int id, int n) {
        if (id < 0 || id > 1 || !error.empty()) {
            return;
        }
        Lru& l = c[id];
        if (!seen[id]) {
            seen[id] = true;
            l.keys = (id == 0) ? dsplib::verif::fft_cache_keys() : dsplib::verif::rfft_cache_keys();
        }
        if (!l.keys.empty() && l.keys.front() == n) {
            return;
        }
        ++n_request_moved;
        if (l.has(n)) {
            l.touch(n);
        } else {
            l.keys.insert(l.keys.begin(), n);
            if (int(l.keys.size()) > capacity) {
                l.keys.pop_back();
            }
        }
    }

    void event(int id, int n, int ev) {
        if (id < 0 || id > 1 || !error.empty()) {
            return;
        }
        if (first_id < 0) {
            first_id = id;
            first_n = n;
        }
        Lru& l = c[id];
        if (!seen[id]) {
            // first access of this cache by this thread: start from what the thread can observe (empty for
            // per-thread caches; whatever is there for a process-wide cache), not from an assumption
            seen[id] = true;
            l.keys = (id == 0) ? dsplib::verif::fft_cache_keys() : dsplib::verif::rfft_cache_keys();
        }
        if (ev == 1) {
            ++n_hit;
            if (depth > 0) {
                ++n_subhit;
            }
            if (!l.has(n)) {
                error = fmt("hit reported for length %d which a reference LRU over the same access history does not hold (cache %d)", n, id);
                return;
            }
            l.touch(n);
        } else if (ev == 0) {
            ++n_miss;
            ++misses_top;
            ++depth;
            if (l.has(n)) {
                error = fmt("miss reported for length %d although a reference LRU of capacity %d over the same access history still holds it (cache %d)", n, capacity, id);
                return;
            }
            if (evicted[id].count(n)) {
                ++n_reinsert;
            }
        } else {
            ++n_insert;
            if (depth > 0) {
                --depth;
            }
            if (l.has(n)) {
                l.touch(n);
            } else {
                l.keys.insert(l.keys.begin(), n);
            }
            if (int(l.keys.size()) > capacity) {
                evicted[id].insert(l.keys.back());
                l.keys.pop_back();
                ++n_evict;
            }
        }
    }
};

thread_local Model* tl_model = nullptr;

void observer(int id, int n, int ev) {
    if (tl_model) {
        tl_model->event(id, n, ev);
    }
}

arr_cmplx cdata(uint32_t ds, int n) {
    Rng r(mix(ds, uint64_t(n) * 7 + 1));
    arr_cmplx x(n);
    for (int i = 0; i < n; ++i) {
        x[i] = cmplx_t{r.normal(), r.normal()};
    }
    return x;
}

arr_real rdata(uint32_t ds, int n) {
    Rng r(mix(ds, uint64_t(n) * 7 + 2));
    arr_real x(n);
    for (int i = 0; i < n; ++i) {
        x[i] = r.normal();
    }
    return x;
}

struct Kept {
    int kind{-1};
    int n{0};
    int m{0};
    int creator{-1};
    std::shared_ptr<dsplib::FftPlan> fft;
    std::shared_ptr<dsplib::FftPlanR> fftr;
    std::shared_ptr<dsplib::IfftPlan> ifft;
    std::shared_ptr<dsplib::IfftPlanR> ifftr;
    std::shared_ptr<dsplib::CztPlan> czt;
    uint32_t first_ds{0};
    std::vector<double> first_out;
    bool live() const {
        return kind >= 0;
    }
    void reset() {
        *this = Kept{};
    }
};

void make_kept(Kept& k, int kind, int n, int m) {
    k.reset();
    switch (kind) {
    case PK_FFT:
        k.fft = std::make_shared<dsplib::FftPlan>(n);
        break;
    case PK_FFTR:
        k.fftr = std::make_shared<dsplib::FftPlanR>(n);
        break;
    case PK_IFFT:
        k.ifft = std::make_shared<dsplib::IfftPlan>(n);
        break;
    case PK_IFFTR:
        k.ifftr = std::make_shared<dsplib::IfftPlanR>(n);
        break;
    default:
        k.czt = std::make_shared<dsplib::CztPlan>(n, m, dsplib::expj(-2 * dsplib::pi / m), cmplx_t{1, 0});
        break;
    }
    k.kind = kind;
    k.n = n;
    k.m = m;
}

std::vector<double> solve_kept(const Kept& k, uint32_t ds) {
    std::vector<double> out;
    switch (k.kind) {
    case PK_FFT:
        append(out, k.fft->solve(cdata(ds, k.n)));
        break;
    case PK_FFTR:
        append(out, k.fftr->solve(rdata(ds, k.n)));
        break;
    case PK_IFFT:
        append(out, k.ifft->solve(cdata(ds, k.n)));
        break;
    case PK_IFFTR:
        append(out, k.ifftr->solve(cdata(ds, k.n)));
        break;
    default:
        append(out, k.czt->solve(cdata(ds, k.n)));
        break;
    }
    return out;
}

bool op_valid(const Op& op) {
    auto sz = [&](size_t i) { return op.iarg(i) >= 1 && op.iarg(i) <= 20000; };
    if (op.kind == "fft" || op.kind == "rfft" || op.kind == "ifft" || op.kind == "hilbert") {
        return op.a.size() >= 2 && sz(0);
    }
    if (op.kind == "irfft") {
        return op.a.size() >= 2 && sz(0) && op.iarg(0) % 2 == 0;
    }
    if (op.kind == "welch" || op.kind == "stft") {
        return op.a.size() >= 3 && sz(0) && op.iarg(0) >= 8 && op.iarg(1) >= 2 && op.iarg(1) <= 11;
    }
    if (op.kind == "gccphat" || op.kind == "thd") {
        return op.a.size() >= 2 && sz(0) && op.iarg(0) >= 16;
    }
    if (op.kind == "misuse") {
        return op.a.size() >= 4 && sz(0) && sz(1) && op.iarg(0) != op.iarg(1) && op.iarg(2) >= 0 && op.iarg(2) <= 2;
    }
    if (op.kind == "resample") {
        return op.a.size() >= 4 && sz(0) && op.iarg(1) >= 1 && op.iarg(1) <= 12 && op.iarg(2) >= 1 && op.iarg(2) <= 12;
    }
    if (op.kind == "fftn" || op.kind == "xcorr" || op.kind == "fftfilt") {
        return op.a.size() >= 3 && sz(0) && sz(1);
    }
    if (op.kind == "sweep") {
        return op.a.size() >= 2 && op.iarg(0) >= 0 && op.iarg(0) <= 3;
    }
    if (op.kind == "czt") {
        return op.a.size() >= 4 && sz(0) && op.iarg(0) <= 4096 && sz(1) && op.iarg(1) <= 4096 && op.iarg(2) >= 0 && op.iarg(2) <= 3;
    }
    if (op.kind == "mkplan") {
        const int64_t kind = op.iarg(1);
        if (op.a.size() < 4 || op.iarg(0) < 0 || op.iarg(0) >= NSLOTS || kind < 0 || kind >= PK_N || !sz(2)) {
            return false;
        }
        if (kind == PK_IFFTR && op.iarg(2) % 2 != 0) {
            return false;
        }
        if (kind == PK_CZT && (op.iarg(3) < 1 || op.iarg(3) > 4096 || op.iarg(2) > 4096)) {
            return false;
        }
        return true;
    }
    if (op.kind == "useplan") {
        return op.a.size() >= 2 && op.iarg(0) >= 0 && op.iarg(0) < NSLOTS;
    }
    if (op.kind == "drop") {
        return op.a.size() >= 1 && op.iarg(0) >= 0 && op.iarg(0) < NSLOTS;
    }
    return false;
}

// the free-function requests (no kept state): same code for the observed call and for the fresh-thread reference
std::vector<double> do_request(const Op& op) {
    std::vector<double> out;
    const int n = int(op.iarg(0));
    if (op.kind == "fft") {
        append(out, dsplib::fft(cdata(uint32_t(op.iarg(1)), n)));
    } else if (op.kind == "rfft") {
        append(out, dsplib::fft(rdata(uint32_t(op.iarg(1)), n)));
    } else if (op.kind == "ifft") {
        append(out, dsplib::ifft(cdata(uint32_t(op.iarg(1)), n)));
    } else if (op.kind == "irfft") {
        append(out, dsplib::irfft(cdata(uint32_t(op.iarg(1)), n)));
    } else if (op.kind == "hilbert") {
        append(out, dsplib::hilbert(rdata(uint32_t(op.iarg(1)), n)));
    } else if (op.kind == "fftn") {
        append(out, dsplib::fft(cdata(uint32_t(op.iarg(2)), n), int(op.iarg(1))));
    } else if (op.kind == "xcorr") {
        append(out, dsplib::xcorr(rdata(uint32_t(op.iarg(2)), n), rdata(uint32_t(op.iarg(2)) + 1, int(op.iarg(1)))));
    } else if (op.kind == "sweep") {
        // one request that walks through a whole family of lengths (every table / pool the planner keeps per thread gets filled)
        static const int fam[4][12] = {{3, 5, 7, 11, 13, 17, 19, 23, 29, 31, 37, 41}, {43, 47, 53, 59, 61, 67, 71, 73, 79, 83, 89, 97},
                                       {16, 32, 64, 128, 256, 512, 1024, 2048, 6, 12, 24, 48}, {9, 15, 21, 25, 27, 33, 35, 45, 49, 55, 63, 65}};
        for (int q : fam[op.iarg(0)]) {
            const auto y = dsplib::fft(cdata(uint32_t(op.iarg(1)), q));
            out.push_back(y[0].re);
            out.push_back(y[q - 1].im);
        }
    } else if (op.kind == "czt") {
        // czt(x, m, w, a): w on the unit circle; a = 1 or a point off the default (anything keyed without `a` would alias)
        const int m = int(op.iarg(1));
        static const cmplx_t avals[4] = {{1, 0}, {0.9, 0.1}, {1.2, -0.3}, {0, 1}};
        append(out, dsplib::czt(cdata(uint32_t(op.iarg(3)), n), m, dsplib::expj(-2 * dsplib::pi / m), avals[op.iarg(2)]));
    } else if (op.kind == "fftfilt") {
        dsplib::FftFilter f(rand_coeffs(uint32_t(op.iarg(2)), n));
        append(out, f.process(rdata(uint32_t(op.iarg(2)), int(op.iarg(1)))));
    } else if (op.kind == "welch") {
        // "everything built on them": the estimators and converters that run transforms internally
        const int nfft = 1 << int(op.iarg(1));
        const auto r = dsplib::welch(rdata(uint32_t(op.iarg(2)), std::max(n, nfft)), nfft);
        append(out, r.pxx);
    } else if (op.kind == "stft") {
        const int nfft = 1 << int(op.iarg(1));
        const auto fr = dsplib::stft(rdata(uint32_t(op.iarg(2)), std::max(n, nfft)), nfft);
        for (const auto& f : fr) {
            append(out, f);
        }
        if (!fr.empty()) {
            append(out, dsplib::istft(fr, nfft));
        }
    } else if (op.kind == "gccphat") {
        const arr_real x = rdata(uint32_t(op.iarg(1)), n);
        const auto r = dsplib::gccphat(dsplib::delayseq(x, 3), x, 8000);
        out.push_back(r.tau);
        append(out, r.corr);
        out.push_back(dsplib::finddelay(x, dsplib::delayseq(x, 2)));
    } else if (op.kind == "thd") {
        arr_real x = rdata(uint32_t(op.iarg(1)), n) * 0.01;
        for (int i = 0; i < n; ++i) {
            x[i] += std::sin(0.7 * i) + 0.1 * std::sin(1.4 * i);
        }
        const auto r = dsplib::thd(x, 3);
        out.push_back(r.value);
        append(out, r.harmfreq);
    } else if (op.kind == "misuse") {
        // a plan object applied to an input of another length: rejected (or answered) the same way in a fresh thread, and
        // without any effect on what later requests of either length return
        const int n2 = int(op.iarg(1));
        const uint32_t ds = uint32_t(op.iarg(3));
        if (op.iarg(2) == 0) {
            dsplib::FftPlan p(n);
            append(out, p(cdata(ds, n2)));
        } else if (op.iarg(2) == 1) {
            dsplib::FftPlanR p(n);
            append(out, p(rdata(ds, n2)));
        } else {
            dsplib::IfftPlan p(n);
            append(out, p(cdata(ds, n2)));
        }
    } else if (op.kind == "resample") {
        append(out, dsplib::resample(rdata(uint32_t(op.iarg(3)), n), int(op.iarg(1)), int(op.iarg(2))));
    }
    return out;
}

// an exception is an outcome too: it must be the same outcome in a fresh thread
template<class Fn>
std::vector<double> guarded(Fn fn) {
    try {
        return fn();
    } catch (const std::exception& e) {
        return {-7777.0, double(strlen(e.what()))};
    }
}

std::vector<int> pick_alphabet(Rng& r, int count) {
    const std::vector<int> bypass{1, 2, 4, 8};
    const std::vector<int> pow2{16, 32, 64, 128, 256, 512, 1024, 2048, 4096};
    const std::vector<int> sprime{3, 5, 7, 11, 13, 17, 19, 23, 29, 31, 37, 41};
    // primes > 41 use the chirp-z path; several share one internal power-of-two work size (43..61 -> 128, 2053/4093 -> 8192)
    const std::vector<int> bprime{43, 47, 53, 59, 61, 97, 101, 127, 211, 257, 1009, 1021, 2053, 2063, 4093};
    // composites; the last ones re-enter the cache for >= 4 distinct sub-plans while they are being built (645 = 3*5*43 -> 3, 5, 43, 128)
    const std::vector<int> comp{6, 10, 12, 15, 18, 20, 30, 36, 60, 100, 120, 125, 360, 500, 1000, 1023, 1025, 129, 645, 1155, 1680, 2064, 2310};
    const std::vector<int> evenr{24, 86, 94, 120, 200, 202, 2000, 2018, 82, 22};
    std::vector<int> a;
    while (int(a.size()) < count) {
        const int c = int(r.below(12));
        const int v = (c == 0) ? r.pick(bypass) : (c <= 2) ? r.pick(pow2) : (c <= 4) ? r.pick(sprime) : (c <= 6) ? r.pick(bprime) : (c <= 9) ? r.pick(comp) : r.pick(evenr);
        if (std::find(a.begin(), a.end(), v) == a.end()) {
            a.push_back(v);
        }
    }
    return a;
}

Plan gen(uint64_t seed, const std::string& tier) {
    Rng r(mix(seed, 0xC10));
    const bool big = (tier == "thorough");
    Plan pl;
    pl.engine = "C10";
    pl.seed = seed;
    pl.tier = tier;
    const int nthr = int(r.pick(std::vector<double>{1, 1, 2, 2, 3}));
    pl.p["nthr"] = nthr;
    pl.p["sched_seed"] = r.seed32();
    pl.p["policy"] = sim::POL_OPBOUND;
    pl.p["p_op"] = 0;
    const bool long_run = big && r.chance(0.01);
    const auto alpha = pick_alphabet(r, long_run ? 40 : int(r.range(3, 8)));
    const int nops = long_run ? 10000 : int(r.range(8, 40));
    for (int i = 0; i < nops; ++i) {
        Op op;
        op.thr = int(int64_t(i) * nthr / nops);   // threads run one after the other (hand-over chain)
        const int c = int(r.below(20));
        int n = r.pick(alpha);
        const double ds = double(r.seed32());
        if (c < 5) {
            op.kind = "fft";
            op.a = {double(n), ds};
        } else if (c < 8) {
            op.kind = "rfft";
            op.a = {double(n), ds};
        } else if (c < 10) {
            op.kind = "ifft";
            op.a = {double(n), ds};
        } else if (c < 12) {
            op.kind = "irfft";
            if (n % 2) {
                n = (n == 1) ? 2 : n - 1;
            }
            op.a = {double(n), ds};
        } else if (c == 12 && r.chance(0.5)) {
            op.kind = "fftn";
            op.a = {double(r.pick(alpha)), double(n), ds};
        } else if (c == 12 || (c == 13 && r.chance(0.3))) {
            const int w = int(r.below(5));
            if (w <= 1) {
                op.kind = (w == 0) ? "welch" : "stft";
                op.a = {double(std::max(n, 8)), double(r.range(2, 8)), ds};
            } else if (w <= 3) {
                op.kind = (w == 2) ? "gccphat" : "thd";
                op.a = {double(std::max(std::min(n, 3000), 16)), ds};
            } else {
                op.kind = "resample";
                op.a = {double(std::min(n, 1500)), double(r.range(1, 7)), double(r.range(1, 7)), ds};
            }
        } else if (c == 13 && r.chance(0.35)) {
            op.kind = "sweep";
            op.a = {double(r.below(4)), ds};
        } else if (c == 13) {
            op.kind = r.chance(0.5) ? "xcorr" : "hilbert";
            if (op.kind == "xcorr") {
                op.a = {double(std::min(n, 600)), double(std::min(r.pick(alpha), 600)), ds};
            } else {
                op.a = {double(std::max(n, 2)), ds};
            }
        } else if (c == 14 && r.chance(0.3)) {
            op.kind = "misuse";
            int n2 = r.pick(alpha);
            if (n2 == n) {
                n2 = n + 1;
            }
            op.a = {double(n), double(n2), double(r.below(3)), ds};
        } else if (c == 14 && r.chance(0.5)) {
            // the m = n, w = exp(-2 pi i / n) form is the one the prime-length FFT plans use internally
            op.kind = "czt";
            const int nn = std::min(n, 1100);
            op.a = {double(nn), double(r.chance(0.7) ? nn : std::min(r.pick(alpha), 1100)), double(r.below(4)), ds};
        } else if (c == 14) {
            op.kind = "fftfilt";
            op.a = {double(std::min(std::max(n, 2), 300)), double(r.range(1, 1500)), ds};
        } else if (c <= 16) {
            op.kind = "mkplan";
            int kind = int(r.below(PK_N));
            int nn = n;
            if (kind == PK_IFFTR && nn % 2) {
                nn = (nn == 1) ? 2 : nn - 1;
            }
            if (kind == PK_CZT) {
                nn = std::min(nn, 300);
            }
            op.a = {double(r.below(NSLOTS)), double(kind), double(nn), double(kind == PK_CZT ? r.range(1, 300) : 0)};
        } else if (c <= 18) {
            op.kind = "useplan";
            op.a = {double(r.below(NSLOTS)), r.chance(0.5) ? 0.0 : ds};   // ds 0: re-solve the input of the plan's first solve
        } else {
            op.kind = "drop";
            op.a = {double(r.below(NSLOTS))};
        }
        pl.ops.push_back(op);
    }
    return pl;
}

Result exec(const Plan& pl) {
    Result res;
    const int nthr = int(std::min<int64_t>(std::max<int64_t>(pl.iparam("nthr", 1), 1), 8));
    if (pl.ops.empty()) {
        res.invalid = true;
        return res;
    }
    std::vector<std::vector<Op>> prog(static_cast<size_t>(nthr));
    for (const auto& op : pl.ops) {
        if (!op_valid(op) || op.thr < 0 || op.thr >= nthr) {
            res.invalid = true;
            return res;
        }
        prog[size_t(op.thr)].push_back(op);
    }
    dsplib::verif::set_cache_observer(observer);
    const int capacity = dsplib::verif::fft_cache_capacity();
    Kept slots[NSLOTS];
    std::vector<Model> models(static_cast<size_t>(nthr));
    std::string failure_class;
    std::string failure;
    std::vector<uint64_t> states;
    std::vector<uint64_t> trans;
    int64_t n_use_evicted = 0, n_use_foreign = 0, n_retention = 0, n_cmp = 0;

    SimThreads st;
    st.configure(pl, nthr);
    for (int t = 1; t < nthr; ++t) {
        st.cfg.start_after[t] = t - 1;   // hand-over: the successor starts when its predecessor's thread has exited
    }
    st.cfg.policy = sim::POL_OPBOUND;
    st.cfg.p_op = 0;
    st.run([&](int me) {
        Model& md = models[size_t(me)];
        md.capacity = capacity;
        // a thread's model starts from what the thread can observe, not from an assumption about where caches live
        tl_model = &md;
        uint64_t prev_state = 0;
        auto fail = [&](const std::string& cls, const std::string& what) {
            if (failure.empty()) {
                failure_class = cls;
                failure = what;
            }
        };
        for (size_t i = 0; i < prog[size_t(me)].size() && failure.empty(); ++i) {
            const Op& op = prog[size_t(me)][i];
            set_cur_opf("C10 thread %d op %zu %s %lld", me, i, op.kind.c_str(), static_cast<long long>(op.iarg(0)));
            md.misses_top = 0;
            md.depth = 0;
            md.first_id = -1;
            std::vector<double> got;
            std::vector<double> ref;
            std::function<std::vector<double>()> ref_fn;   // the same request, to be executed in a fresh thread
            bool single_length = false;
            auto show = [](const std::vector<int>& v) {
                std::string s = "[";
                for (int x : v) {
                    s += fmt("%d ", x);
                }
                return s + "]";
            };
            // lock-step refinement: the reference LRU driven by the observed accesses must equal the hook's key list
            auto lockstep = [&](const char* when) {
                if (!md.error.empty()) {
                    fail("C10:lru-model", fmt("thread %d op %zu %s (%s): %s", me, i, op.kind.c_str(), when, md.error.c_str()));
                }
                const auto ck = dsplib::verif::fft_cache_keys();
                const auto rk = dsplib::verif::rfft_cache_keys();
                if (int(ck.size()) > capacity || int(rk.size()) > capacity) {
                    fail("C10:capacity", fmt("thread %d op %zu: %zu complex / %zu real plans cached, configured capacity %d", me, i, ck.size(), rk.size(), capacity));
                }
                if ((md.seen[0] && ck != md.c[0].keys) || (md.seen[1] && rk != md.c[1].keys)) {
                    fail("C10:lru-model", fmt("thread %d op %zu %s(%lld) (%s): cached lengths complex %s real %s, reference LRU (capacity %d) over the same accesses holds complex %s real %s", me,
                                              i, op.kind.c_str(), static_cast<long long>(op.iarg(0)), when, show(ck).c_str(), show(rk).c_str(), capacity, show(md.c[0].keys).c_str(),
                                              show(md.c[1].keys).c_str()));
                }
            };
            // phase 1: the observed request
            try {
                if (op.kind == "mkplan") {
                    Kept& k = slots[op.iarg(0)];
                    make_kept(k, int(op.iarg(1)), int(op.iarg(2)), int(op.iarg(3)));
                    k.creator = me;
                    k.first_ds = uint32_t(mix(uint64_t(op.iarg(2)), i) >> 33) | 1u;
                    k.first_out = solve_kept(k, k.first_ds);
                    got = k.first_out;
                    const int kk = k.kind, kn = k.n, km = k.m;
                    const uint32_t kds = k.first_ds;
                    ref_fn = [kk, kn, km, kds] {
                        Kept f;
                        make_kept(f, kk, kn, km);
                        return solve_kept(f, kds);
                    };
                } else if (op.kind == "useplan") {
                    Kept& k = slots[op.iarg(0)];
                    if (k.live()) {
                        const uint32_t ds = (op.iarg(1) == 0) ? k.first_ds : uint32_t(op.iarg(1));
                        const auto ck = dsplib::verif::fft_cache_keys();
                        const auto rk = dsplib::verif::rfft_cache_keys();
                        const bool cached = (std::find(ck.begin(), ck.end(), k.n) != ck.end()) || (std::find(rk.begin(), rk.end(), k.n) != rk.end());
                        n_use_evicted += !cached;
                        n_use_foreign += (k.creator != me);
                        got = solve_kept(k, ds);
                        if (ds == k.first_ds) {
                            // same object, same input: must reproduce its first result bit for bit
                            if (got.size() != k.first_out.size() || std::memcmp(got.data(), k.first_out.data(), got.size() * sizeof(double)) != 0) {
                                fail("C10:kept-plan-changed", fmt("thread %d op %zu: kept plan (kind %d, n=%d, created by thread %d) no longer reproduces its first result on the same input", me, i,
                                                                 k.kind, k.n, k.creator));
                            }
                        }
                        const int kk = k.kind, kn = k.n, km = k.m;
                        ref_fn = [kk, kn, km, ds] {
                            Kept f;
                            make_kept(f, kk, kn, km);
                            return solve_kept(f, ds);
                        };
                    }
                } else if (op.kind == "drop") {
                    slots[op.iarg(0)].reset();
                } else {
                    got = guarded([&] { return do_request(op); });
                    ref_fn = [&op] { return guarded([&] { return do_request(op); }); };
                    single_length = (op.kind == "fft" || op.kind == "rfft" || op.kind == "ifft" || op.kind == "irfft");
                }
            } catch (const std::exception& e) {
                fail("C10:exception", fmt("thread %d op %zu %s(%lld): exception: %s", me, i, op.kind.c_str(), static_cast<long long>(op.iarg(0)), e.what()));
            }
            // phase 2: refinement, before anything else touches a cache
            if (got.size() >= 1 && !(got.size() == 2 && got[0] == -7777.0) &&
                (op.kind == "fft" || op.kind == "ifft" || op.kind == "rfft" || op.kind == "irfft" || (op.kind == "mkplan" && op.iarg(1) != PK_CZT))) {
                const std::string rk = (op.kind == "mkplan") ? fmt("mkplan %lld %lld", static_cast<long long>(op.iarg(1)), static_cast<long long>(op.iarg(2)))
                                                             : fmt("%s %lld", op.kind.c_str(), static_cast<long long>(op.iarg(0)));
                if (md.first_id >= 0) {
                    md.learned[rk] = {md.first_id, md.first_n};   // the request consulted a cache: the events are authoritative
                } else {
                    const auto it = md.learned.find(rk);
                    if (it != md.learned.end()) {
                        md.request(it->second.first, it->second.second);   // answered without consulting any cache: still a use
                    }
                }
            }
            lockstep("after the request");
            // phase 3: transparency - the same request in a fresh thread
            if (ref_fn) {
                tl_model = nullptr;
                try {
                    run_isolated([&] { ref = ref_fn(); });
                } catch (...) {
                }
                tl_model = &md;
                // a process-wide cache is touched by the fresh thread too: adopt what this thread can observe now
                if (md.seen[0]) {
                    md.c[0].keys = dsplib::verif::fft_cache_keys();
                }
                if (md.seen[1]) {
                    md.c[1].keys = dsplib::verif::rfft_cache_keys();
                }
                ++n_cmp;
                const Cmp c = compare_stream(got, ref, 1e-9);
                if (!c.ok) {
                    fail("C10:history-dependent-result", fmt("thread %d op %zu %s(n=%lld): result differs from the same call in a fresh thread at element %zu: %s", me, i, op.kind.c_str(),
                                                             static_cast<long long>(op.iarg(op.kind == "mkplan" ? 2 : 0)), c.at, c.what.c_str()));
                }
                res.digest.bytes(got.data(), got.size() * sizeof(double));
            }
            // phase 4: retention of the most recent use - the same single-length request again, nothing in between
            if (single_length && failure.empty()) {
                md.misses_top = 0;
                md.depth = 0;
                const auto again = guarded([&] { return do_request(op); });
                ++n_retention;
                if (md.misses_top != 0 && md.error.empty()) {
                    fail("C10:not-retained", fmt("thread %d op %zu: %s of length %lld repeated immediately caused %d cache miss(es): the most recently used plan was not retained "
                                                 "(capacity %d)",
                                                 me, i, op.kind.c_str(), static_cast<long long>(op.iarg(0)), md.misses_top, capacity));
                }
                if (again.size() != got.size() || std::memcmp(again.data(), got.data(), got.size() * sizeof(double)) != 0) {
                    fail("C10:repeat-differs", fmt("thread %d op %zu: %s of length %lld repeated immediately gave a different result", me, i, op.kind.c_str(), static_cast<long long>(op.iarg(0))));
                }
                lockstep("after the immediate repeat");
            }
            const auto ck = dsplib::verif::fft_cache_keys();
            const auto rk = dsplib::verif::rfft_cache_keys();
            Hash h;
            h.u64(uint64_t(capacity));
            for (int x : ck) {
                h.u64(uint64_t(x));
            }
            h.u64(0xffff);
            for (int x : rk) {
                h.u64(uint64_t(x));
            }
            states.push_back(h.h);
            Hash ht;
            ht.u64(prev_state);
            ht.str(op.kind);
            ht.u64(uint64_t(op.iarg(0)));
            ht.u64(h.h);
            trans.push_back(ht.h);
            prev_state = h.h;
            sim::op_boundary();
        }
        tl_model = nullptr;
    });
    st.collect(res);
    for (const auto& e : st.errors) {
        if (!e.empty()) {
            res.fail("C10:harness-exception", e);
        }
    }
    if (!failure.empty()) {
        res.fail(failure_class, failure);
    }
    for (auto& k : slots) {
        k.reset();   // plans that outlived their creator thread are destroyed here (ASan watches)
    }
    for (const auto& md : models) {
        res.inc("probe.eviction", md.n_evict);
        res.inc("probe.request_not_most_recent_in_event_model", md.n_request_moved);
        res.inc("probe.reinsertion_of_evicted_key", md.n_reinsert);
        res.inc("probe.subplan_hit_during_construction", md.n_subhit);
        res.inc("sim.cache_hits", md.n_hit);
        res.inc("sim.cache_misses", md.n_miss);
    }
    res.inc("probe.solve_through_plan_whose_key_was_evicted", n_use_evicted);
    res.inc("probe.plan_used_after_creator_thread_exit", n_use_foreign);
    res.inc("fault.thread_exit_with_live_plans", nthr - 1);
    res.inc("probe.retention_checked", n_retention);
    res.inc("sim.results_compared_with_fresh_thread", n_cmp);
    res.inc("sim.requests", int64_t(pl.ops.size()));
    res.inc(fmt("knob.cache_size_%d", capacity));
    res.states = states;
    res.trans = trans;
    Hash h;
    h.u64(uint64_t(capacity));
    for (const auto& op : pl.ops) {
        h.str(op.kind);
        h.u64(uint64_t(op.iarg(0)));
    }
    int64_t ev = 0;
    for (const auto& md : models) {
        ev += md.n_evict;
    }
    if (ev > 0) {
        res.sigs.push_back(h.h);
    }
    res.sample = fmt("capacity %d, %d thread(s) in a hand-over chain, %zu requests, first: %s(%lld), evictions %lld", capacity, nthr, pl.ops.size(), pl.ops[0].kind.c_str(),
                     static_cast<long long>(pl.ops[0].iarg(0)), static_cast<long long>(ev));
    return res;
}

EngineReg reg({"C10", gen, exec, "plan-cache transparency: request histories, kept plans, thread exit, cache-size knob; lock-step LRU model"});

}   // namespace
}   // namespace vf
