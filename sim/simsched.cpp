// Deterministic scheduler — see sched.h.  NO sanitizer / coverage flags for this file.
#include "simsched.h"

#include <atomic>
#include <cerrno>
#include <climits>
#include <cmath>
#include <cstdio>
#include <cstdlib>
#include <cstring>
#include <ctime>
#include <linux/futex.h>
#include <pthread.h>
#include <sys/syscall.h>
#include <unistd.h>

namespace sim {

namespace {

enum { ST_NONE = 0, ST_WAITSTART, ST_RUNNABLE, ST_DONE };

struct Th {
    std::atomic<int> go{0};
    int state{ST_NONE};
    int prio{0};
    uint64_t edges{0};
    const void* blocked_on{nullptr};   // lock this thread found busy; cleared when that lock is unlocked
};

Th g_th[MAX_THREADS];
std::atomic<int> g_ctl_go{0};
Config g_cfg;
Stats g_stats;
bool g_armed = false;
int g_current = -1;
uint64_t g_rng = 0;
uint64_t g_countdown = 0;
size_t g_replay_pos = 0;
// No std:: containers here: their template code would be shared (ODR) with instrumented
// translation units and re-enter the edge callback from inside the scheduler.
// ... and no malloc/realloc either: the sanitizers intercept them, and ThreadSanitizer would see the
// scheduler's own bookkeeping as unsynchronised heap writes of the simulated threads.
constexpr size_t MAX_TAKEN = size_t(1) << 22;
Switch g_taken[MAX_TAKEN];
size_t g_ntaken = 0;
uint64_t g_pct_points[16];
size_t g_npct = 0;
size_t g_pct_pos = 0;
thread_local int tl_in_sched = 0;
uint64_t g_forced_streak = 0;

thread_local int tl_id = -1;
thread_local int tl_nopreempt = 0;
thread_local uint64_t tl_edges = 0;
// Every thread starts with a generous default edge budget (a legitimate run thread executes at most ~1e9 edges):
// an endless loop in instrumented code ends the run deterministically instead of spinning until a wall-clock timeout.
constexpr uint64_t DEFAULT_EDGE_BUDGET = 4000000000ull;
thread_local uint64_t tl_budget = DEFAULT_EDGE_BUDGET;

inline uint64_t rnd() {
    uint64_t z = (g_rng += 0x9E3779B97F4A7C15ull);
    z = (z ^ (z >> 30)) * 0xBF58476D1CE4E5B9ull;
    z = (z ^ (z >> 27)) * 0x94D049BB133111EBull;
    return z ^ (z >> 31);
}

inline double rnd01() {
    return (rnd() >> 11) * (1.0 / 9007199254740992.0);
}

void futex_wait(std::atomic<int>* w, int val, const timespec* ts = nullptr) {
    syscall(SYS_futex, reinterpret_cast<int*>(w), FUTEX_WAIT_PRIVATE, val, ts, nullptr, 0);
}

void futex_wake(std::atomic<int>* w) {
    syscall(SYS_futex, reinterpret_cast<int*>(w), FUTEX_WAKE_PRIVATE, INT_MAX, nullptr, nullptr, 0);
}

void say(const char* s) {
    ssize_t r = write(1, s, strlen(s));
    (void)r;
}

void park(int id) {
    while (g_th[id].go.load(std::memory_order_acquire) == 0) {
        futex_wait(&g_th[id].go, 0);
    }
    g_th[id].go.store(0, std::memory_order_relaxed);
}

void release(int id) {
    g_current = id;
    g_th[id].go.store(1, std::memory_order_release);
    futex_wake(&g_th[id].go);
}

bool runnable(int i) {
    if (g_th[i].blocked_on != nullptr) {
        return false;
    }
    if (g_th[i].state == ST_RUNNABLE) {
        return true;
    }
    if (g_th[i].state == ST_WAITSTART) {
        const int dep = g_cfg.start_after[i];
        return (dep < 0) || (g_th[dep].state == ST_DONE);
    }
    return false;
}

bool stalled(int i) {
    return (g_cfg.policy == POL_STALL) && (i == g_cfg.stall_thr) && (g_stats.yields >= g_cfg.stall_from) &&
           (g_stats.yields < g_cfg.stall_from + g_cfg.stall_len);
}

uint64_t draw_gap() {
    const double p = g_cfg.p_edge;
    if (p <= 0) {
        return UINT64_MAX;
    }
    if (p >= 1) {
        return 1;
    }
    const double u = 1.0 - rnd01();   // (0,1]
    const double g = std::floor(std::log(u) / std::log1p(-p)) + 1;
    return (g > 1e18) ? UINT64_MAX : uint64_t(g);
}

// choose another runnable thread (never `me`); -1 if none
int pick_other(int me) {
    int cand[MAX_THREADS];
    int n = 0;
    int nstalled = 0;
    for (int i = 0; i < g_cfg.nthreads; ++i) {
        if (i != me && runnable(i)) {
            if (stalled(i)) {
                ++nstalled;
                continue;
            }
            cand[n++] = i;
        }
    }
    if (n == 0) {
        if (nstalled) {
            ++g_stats.stall_skips;
        }
        return -1;
    }
    if (g_cfg.policy == POL_PCT) {
        int best = cand[0];
        for (int k = 1; k < n; ++k) {
            if (g_th[cand[k]].prio > g_th[best].prio) {
                best = cand[k];
            }
        }
        return best;
    }
    return cand[rnd() % uint64_t(n)];
}

enum { K_EDGE = 0, K_OP, K_FORCED, K_EXIT, K_START };

// One decision point. Returns the thread that gets the token (== me: continue).
int decide(int me, int kind) {
    ++g_stats.yields;
    const uint64_t idx = g_stats.yields;

    if (g_cfg.policy == POL_REPLAY) {
        while (g_replay_pos < g_cfg.nreplay && g_cfg.replay[g_replay_pos].idx < idx) {
            ++g_replay_pos;
        }
        if (g_replay_pos < g_cfg.nreplay && g_cfg.replay[g_replay_pos].idx == idx) {
            const int t = g_cfg.replay[g_replay_pos++].thr;
            if (t >= 0 && t < g_cfg.nthreads && t != me && runnable(t)) {
                return t;
            }
        }
        if (kind == K_EXIT || kind == K_START || kind == K_FORCED) {
            for (int i = 0; i < g_cfg.nthreads; ++i) {
                if (i != me && runnable(i)) {
                    return i;
                }
            }
        }
        return me;
    }

    if (kind == K_FORCED) {
        // the caller found a lock busy: whoever holds it must get to run. Pick uniformly among ALL other
        // runnable threads, ignoring priorities and starvation (a priority rule would let two blocked
        // high-priority threads hand the token to each other forever while the owner never runs).
        int cand[MAX_THREADS];
        int n = 0;
        for (int i = 0; i < g_cfg.nthreads; ++i) {
            if (i != me && runnable(i)) {
                cand[n++] = i;
            }
        }
        if (n == 0) {
            // everybody else waits for a lock as well: wake them all (one of them may find its lock free by now)
            for (int i = 0; i < g_cfg.nthreads; ++i) {
                if (i != me && g_th[i].blocked_on != nullptr) {
                    g_th[i].blocked_on = nullptr;
                    if (runnable(i)) {
                        cand[n++] = i;
                    }
                }
            }
        }
        return n ? cand[rnd() % uint64_t(n)] : me;
    }
    if (kind == K_EXIT || kind == K_START) {
        const int t = pick_other(me);
        if (t >= 0) {
            return t;
        }
        // only starved threads are left besides me: one of them must run
        for (int i = 0; i < g_cfg.nthreads; ++i) {
            if (i != me && runnable(i)) {
                return i;
            }
        }
        return me;
    }

    if (g_cfg.policy == POL_PCT) {
        bool change = false;
        while (g_pct_pos < g_npct && g_pct_points[g_pct_pos] <= idx) {
            ++g_pct_pos;
            change = true;
        }
        if (change && me >= 0) {
            int lo = INT_MAX;
            for (int i = 0; i < g_cfg.nthreads; ++i) {
                lo = (g_th[i].prio < lo) ? g_th[i].prio : lo;
            }
            g_th[me].prio = lo - 1;
        }
        // run the highest-priority runnable thread
        int best = me;
        for (int i = 0; i < g_cfg.nthreads; ++i) {
            if (i != me && runnable(i) && (best < 0 || g_th[i].prio > g_th[best].prio)) {
                best = i;
            }
        }
        return best;
    }

    // The switch log is finite: a very long run under a high preemption rate stops being preempted at edges once half of
    // the log is used, and at op boundaries once three quarters are used (deterministic; forced and exit switches remain).
    if (kind == K_EDGE && g_ntaken > MAX_TAKEN / 2) {
        g_countdown = UINT64_MAX;
        return me;
    }
    if (kind == K_OP && g_ntaken > (MAX_TAKEN / 4) * 3) {
        return me;
    }
    if (kind == K_OP) {
        if (g_cfg.p_op > 0 && rnd01() < g_cfg.p_op) {
            const int t = pick_other(me);
            return (t >= 0) ? t : me;
        }
        return me;
    }

    // K_EDGE, uniform / stall
    if (g_countdown == UINT64_MAX) {
        return me;
    }
    if (--g_countdown > 0) {
        return me;
    }
    g_countdown = draw_gap();
    const int t = pick_other(me);
    return (t >= 0) ? t : me;
}

void record(uint64_t idx, int t) {
    if (g_ntaken >= MAX_TAKEN) {
        say("SIM-STUCK more than 2^22 switches in one run\n");
        _exit(3);
    }
    g_taken[g_ntaken++] = Switch{idx, t};
    g_stats.sched_hash = (g_stats.sched_hash ^ (idx * 0x100000001B3ull + uint64_t(t + 1))) * 0x9E3779B97F4A7C15ull;
    ++g_stats.switches;
}

void hand_over(int me, int t, int kind) {
    record(g_stats.yields, t);
    if (kind == K_EDGE) {
        ++g_stats.edge_switches;
    }
    if (g_th[t].state == ST_WAITSTART) {
        g_th[t].state = ST_RUNNABLE;
    }
    release(t);
    park(me);
}

void yield_here(int kind) {
    if (tl_in_sched) {
        return;
    }
    tl_in_sched = 1;
    const int me = tl_id;
    const int t = decide(me, kind);
    if (t != me && t >= 0) {
        hand_over(me, t, kind);
    }
    tl_in_sched = 0;
}

void finish() {
    const int me = tl_id;
    if (me < 0) {
        return;
    }
    g_th[me].edges = tl_edges;
    g_stats.edges += tl_edges;
    g_th[me].state = ST_DONE;
    tl_id = -1;
    const int t = decide(me, K_EXIT);
    if (t >= 0 && t != me) {
        record(g_stats.yields, t);
        if (g_th[t].state == ST_WAITSTART) {
            g_th[t].state = ST_RUNNABLE;
        }
        release(t);
        return;
    }
    // nobody left: wake the controller
    g_current = -1;
    g_ctl_go.store(1, std::memory_order_release);
    futex_wake(&g_ctl_go);
}

// Constructed first in every simulated thread, hence destroyed last: the token is passed on
// only after the thread's own thread_local objects (plan caches) have been destroyed, so that
// thread exit is part of the deterministic schedule too.
struct ExitSentinel {
    bool armed{false};
    ~ExitSentinel() {
        if (armed) {
            finish();
        }
    }
};
thread_local ExitSentinel tl_sentinel;

}   // namespace

void begin(const Config& cfg) {
    g_cfg = cfg;
    g_stats = Stats{};
    g_ntaken = 0;
    g_rng = cfg.seed * 0x9E3779B97F4A7C15ull + 0x1234567ull;
    g_replay_pos = 0;
    g_forced_streak = 0;
    g_ctl_go.store(0);
    for (int i = 0; i < MAX_THREADS; ++i) {
        g_th[i].go.store(0);
        g_th[i].state = (i < cfg.nthreads) ? ST_WAITSTART : ST_NONE;
        g_th[i].edges = 0;
        g_th[i].prio = 0;
        g_th[i].blocked_on = nullptr;
    }
    // PCT: random distinct priorities, d change points
    if (cfg.policy == POL_PCT) {
        int perm[MAX_THREADS];
        for (int i = 0; i < cfg.nthreads; ++i) {
            perm[i] = i;
        }
        for (int i = cfg.nthreads - 1; i > 0; --i) {
            const int j = int(rnd() % uint64_t(i + 1));
            const int t = perm[i];
            perm[i] = perm[j];
            perm[j] = t;
        }
        for (int i = 0; i < cfg.nthreads; ++i) {
            g_th[i].prio = 1000 + perm[i];
        }
        g_npct = 0;
        for (int k = 0; k < cfg.pct_d && k < 16; ++k) {
            g_pct_points[g_npct++] = 1 + rnd() % (cfg.pct_span ? cfg.pct_span : 1);
        }
        for (size_t a = 0; a < g_npct; ++a) {
            for (size_t b = a + 1; b < g_npct; ++b) {
                if (g_pct_points[b] < g_pct_points[a]) {
                    const uint64_t t = g_pct_points[a];
                    g_pct_points[a] = g_pct_points[b];
                    g_pct_points[b] = t;
                }
            }
        }
        g_pct_pos = 0;
    }
    g_countdown = draw_gap();
    g_armed = true;
}

void run_all() {
    const int first = decide(-1, K_START);
    if (first >= 0) {
        record(g_stats.yields, first);
        g_th[first].state = ST_RUNNABLE;
        release(first);
        // wall-clock safety net only: a stuck simulator is an infrastructure error (exit 3)
        timespec t0;
        clock_gettime(CLOCK_MONOTONIC, &t0);
        while (g_ctl_go.load(std::memory_order_acquire) == 0) {
            timespec ts{1, 0};
            futex_wait(&g_ctl_go, 0, &ts);
            timespec t1;
            clock_gettime(CLOCK_MONOTONIC, &t1);
            if (t1.tv_sec - t0.tv_sec > 300) {
                say("SIM-STUCK watchdog\n");
                _exit(3);
            }
        }
    }
    g_armed = false;
}

const Stats& stats() {
    return g_stats;
}

size_t taken_switches(const Switch** out) {
    *out = g_taken;
    return g_ntaken;
}

void thread_enter(int id) {
    tl_sentinel.armed = true;
    tl_nopreempt = 0;
    tl_edges = 0;
    tl_id = id;
    park(id);
}

void op_boundary() {
    if (tl_id >= 0 && tl_nopreempt == 0) {
        yield_here(K_OP);
    }
}

bool in_sim() {
    return tl_id >= 0;
}

int self() {
    return tl_id;
}

uint64_t edges_now() {
    return tl_edges;
}

void set_edge_budget(uint64_t abs_limit) {
    tl_budget = abs_limit;
}

void clear_edge_budget() {
    tl_budget = tl_edges + DEFAULT_EDGE_BUDGET;
}

}   // namespace sim

//---------------------------------------------------------------------------------------------
// seam 1: the compiler calls this on every basic-block edge of instrumented code
extern "C" void __sanitizer_cov_trace_pc_guard(uint32_t*) {
    using namespace sim;
    if (++tl_edges > tl_budget) {
        tl_budget = UINT64_MAX;
        sim_budget_exceeded();
    }
    if (tl_id < 0 || tl_nopreempt != 0) {
        return;
    }
    yield_here(K_EDGE);
}

extern "C" void __sanitizer_cov_trace_pc_guard_init(uint32_t* start, uint32_t* stop) {
    static uint32_t n = 0;
    for (uint32_t* p = start; p < stop; ++p) {
        if (*p == 0) {
            *p = ++n;
        }
    }
}

//---------------------------------------------------------------------------------------------
// seam 2: synchronisation by link-time wrapping (-Wl,--wrap=...)
extern "C" {

int __real___cxa_guard_acquire(void* g);
void __real___cxa_guard_release(void* g);
void __real___cxa_guard_abort(void* g);

// A thread that wins a guarded static initialisation must not be parked inside it: another
// thread arriving at the same guard would block in the C++ runtime, outside the scheduler.
int __wrap___cxa_guard_acquire(void* g) {
    if (sim::tl_id < 0) {
        return __real___cxa_guard_acquire(g);
    }
    ++sim::tl_nopreempt;
    const int r = __real___cxa_guard_acquire(g);
    if (r == 0) {
        --sim::tl_nopreempt;
    } else {
        ++sim::g_stats.guard_sections;
    }
    return r;
}

void __wrap___cxa_guard_release(void* g) {
    __real___cxa_guard_release(g);
    if (sim::tl_id >= 0 && sim::tl_nopreempt > 0) {
        --sim::tl_nopreempt;
    }
}

void __wrap___cxa_guard_abort(void* g) {
    __real___cxa_guard_abort(g);
    if (sim::tl_id >= 0 && sim::tl_nopreempt > 0) {
        --sim::tl_nopreempt;
    }
}

int __real_pthread_mutex_lock(pthread_mutex_t* m);


// A would-be blocking lock becomes "try; if busy, hand the token to somebody else; retry when
// scheduled again", so lock-based code runs under the scheduler instead of deadlocking it.
int __wrap_pthread_mutex_lock(pthread_mutex_t* m) {
    if (sim::tl_id < 0) {
        return __real_pthread_mutex_lock(m);
    }
    // synchronisation operations are schedule points of their own: a switch right before a critical section is entered
    // (or right after one is left, below) is what exposes check-then-act sequences split over several critical sections
    if (sim::tl_nopreempt == 0) {
        sim::yield_here(sim::K_OP);
    }
    for (;;) {
        const int r = pthread_mutex_trylock(m);
        if (r != EBUSY) {
            sim::g_forced_streak = 0;
            return r;
        }
        ++sim::g_stats.lock_blocked;
        if (++sim::g_forced_streak > 200000) {
            sim::g_stats.deadlock = 1;
            sim::say("SIM-DEADLOCK all simulated threads blocked on locks\n");
            _exit(79);
        }
        // not runnable until somebody unlocks this mutex (or everybody is blocked)
        sim::g_th[sim::tl_id].blocked_on = m;
        sim::yield_here(sim::K_FORCED);
        sim::g_th[sim::tl_id].blocked_on = nullptr;
    }
}

int __real_pthread_mutex_unlock(pthread_mutex_t* m);

int __wrap_pthread_mutex_unlock(pthread_mutex_t* m) {
    const int r = __real_pthread_mutex_unlock(m);
    if (sim::tl_id >= 0) {
        for (int i = 0; i < sim::g_cfg.nthreads; ++i) {
            if (sim::g_th[i].blocked_on == m) {
                sim::g_th[i].blocked_on = nullptr;
            }
        }
        if (sim::tl_nopreempt == 0) {
            sim::yield_here(sim::K_OP);
        }
    }
    return r;
}

}   // extern "C"
