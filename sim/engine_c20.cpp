// C20 — dynamics processors: gain range, ceiling, static curve, settling in bounded simulated time.
// The simulator owns the sample clock (time constants are seconds x fs) and the environment: a seeded
// sequence of level steps, bursts, silence and noise, followed by a quiet period at constant envelope.
// Invariants are checked at every sample of the run; settling / time-constant oracles over the quiet period.
#include "dsp_util.h"
#include "simrun.h"

#include <memory>

namespace vf {
namespace {

// common tail of every op: eseed nev quiet_db quiet_n fseed
// comp: fs thr ratio knee attack release | tail
// lim : fs thr knee attack release 0     | tail
// gate: fs thr attack release hold 0     | tail
// agc : target maxgain avg trise tfall cplx | tail
constexpr size_t T_ESEED = 6, T_NEV = 7, T_QDB = 8, T_QN = 9, T_FSEED = 10, NARGS = 11;

double lin(double db) {
    return std::pow(10.0, db / 20.0);
}

double todb(double a) {
    return 20.0 * std::log10(a);
}

// environment: events on the sample clock
struct Env {
    std::vector<double> x;       // real stream (or re part)
    std::vector<double> xi;      // imag part (agc complex)
    size_t quiet_from{0};
    int steps_in_knee{0};
};

Env make_env(uint32_t eseed, int nev, double quiet_db, int64_t quiet_n, double thr, double knee, bool cplx) {
    Rng r(mix(eseed, 0xE20));
    Env e;
    for (int k = 0; k < nev; ++k) {
        const int type = int(r.below(5));
        const int64_t dur = r.logi(1, 4000);
        double level;
        const int c = int(r.below(6));
        if (c == 0) {
            level = thr - knee / 2 + r.pick(std::vector<double>{-0.01, 0.0, 0.01});
        } else if (c == 1) {
            level = thr + knee / 2 + r.pick(std::vector<double>{-0.01, 0.0, 0.01});
        } else if (c == 2) {
            level = thr + r.real(-knee / 2, knee / 2);
        } else {
            level = r.real(-100, 20);
        }
        if (level > thr - knee / 2 && level < thr + knee / 2) {
            ++e.steps_in_knee;
        }
        const double a = lin(level);
        for (int64_t i = 0; i < dur; ++i) {
            double v = 0;
            double w = 0;
            switch (type) {
            case 0:   // constant envelope, random polarity
                v = r.chance(0.5) ? a : -a;
                break;
            case 1:   // gaussian noise at that rms level
                v = a * r.normal();
                w = a * r.normal();
                break;
            case 2:   // silence
                v = 0;
                break;
            case 3:   // burst: few samples 40 dB hotter inside a floor
                v = (i % 97 < 3) ? a * 100 : a * r.normal() * 0.01;
                break;
            default:   // slow ramp in dB toward the level
                v = lin(level - 40.0 * double(dur - i) / double(dur)) * (r.chance(0.5) ? 1 : -1);
                break;
            }
            e.x.push_back(v);
            e.xi.push_back(cplx ? w : 0.0);
        }
    }
    e.quiet_from = e.x.size();
    const double a = lin(quiet_db);
    for (int64_t i = 0; i < quiet_n; ++i) {
        if (cplx) {
            const double th = r.real(0, 6.283185307179586);
            e.x.push_back(a * std::cos(th));
            e.xi.push_back(a * std::sin(th));
        } else {
            e.x.push_back(r.chance(0.5) ? a : -a);
            e.xi.push_back(0);
        }
    }
    return e;
}

struct Out {
    std::vector<double> out, outi, gain;
};

template<class P>
bool drive_real(P& p, const Env& e, uint32_t fseed, Out& o, Result& res, const char* name) {
    const auto frames = make_framing(FS_HEAVY, fseed, int64_t(e.x.size()), 0, 1, 1);
    size_t k = 0;
    std::unique_ptr<P> cur = std::make_unique<P>(p);
    // object-lifetime event: from one frame boundary on the stream continues on a COPY of the processor
    const uint64_t hz = mix(fseed, 0xC0C0);
    const size_t copy_at = (frames.size() >= 2 && hz % 4 == 0) ? 1 + size_t((hz >> 8) % (frames.size() - 1)) : size_t(-1);
    size_t fidx = 0;
    for (int fr : frames) {
        if (fidx++ == copy_at) {
            if ((hz >> 32) & 1) {
                cur = std::make_unique<P>(*cur);   // copy-construct; the original is destroyed: the copy must carry the complete state
            } else {
                cur = std::make_unique<P>(std::move(*cur));   // move-construct: the successor must take over the complete state
            }
            res.inc("fault.copied_mid_stream");
        }
        try {
            auto r = cur->process(to_arr(e.x.data() + k, size_t(fr)));
            if (r.out.size() != fr || r.gain.size() != fr) {
                res.fail(std::string("C20:length:") + name, fmt("%s::process returned %d/%d samples for a frame of %d", name, r.out.size(), r.gain.size(), fr));
                return false;
            }
            append(o.out, r.out);
            append(o.gain, r.gain);
        } catch (const std::exception& ex) {
            res.fail(std::string("C20:exception:") + name, std::string(name) + "::process threw: " + ex.what());
            return false;
        }
        k += size_t(fr);
    }
    res.inc("fault.segment", int64_t(frames.size()) - 1);
    return true;
}

// 10%..90% transition time of seq (from index `from`) between its first value and `target`; -1 if not measurable
int64_t t10_90(const std::vector<double>& g, size_t from, double target, double g0) {
    const double d = target - g0;
    int64_t n10 = -1;
    int64_t n90 = -1;
    for (size_t i = from; i < g.size(); ++i) {
        const double prog = (g[i] - g0) / d;
        if (n10 < 0 && prog >= 0.1) {
            n10 = int64_t(i);
        }
        if (prog >= 0.9) {
            n90 = int64_t(i);
            break;
        }
    }
    return (n10 >= 0 && n90 >= 0) ? (n90 - n10) : -1;
}

//---------------------------------------------------------------------------------------------
// static characteristic with zero time constants (compressor: inv_ratio = 1/R, limiter: 0)
template<class Mk>
void check_static_curve(Mk make_zero_time, double T, double W, double inv_ratio, Result& res, const char* name) {
    auto level_out = [&](double L) {
        auto p = make_zero_time();
        arr_real x(1);
        x[0] = lin(L);
        auto r = p.process(x);
        return todb(std::fabs(r.out[0]));
    };
    auto hard = [&](double L) { return (L <= T) ? L : T + (L - T) * inv_ratio; };
    const double lo = T - W / 2;
    const double hi = T + W / 2;
    // coarse sweep -100..+20 dB plus a 0.01 dB grid around the knee
    std::vector<double> grid;
    for (double L = -100; L <= 20.0001; L += 0.5) {
        grid.push_back(L);
    }
    for (double L = lo - 0.5; L <= hi + 0.5; L += 0.01) {
        grid.push_back(L);
    }
    std::sort(grid.begin(), grid.end());
    double prev = -1e300;
    double prevL = 0;
    for (double L : grid) {
        const double y = level_out(L);
        if (!(y >= prev - 1e-9)) {
            res.fail(std::string("C20:static-monotone:") + name, fmt("%s T=%.4f W=%.4f 1/R=%.4f: output level %.9f dB at input %.4f dB is below %.9f dB at input %.4f dB", name, T, W,
                                                                     inv_ratio, y, L, prev, prevL));
            return;
        }
        prev = y;
        prevL = L;
        if (L <= lo - 1e-9) {
            if (std::fabs(y - L) > 1e-7) {
                res.fail(std::string("C20:static-unity:") + name, fmt("%s T=%.4f W=%.4f: below the knee the output level must equal the input level %.4f dB, got %.9f", name, T, W, L, y));
                return;
            }
        } else if (L >= hi + 1e-9) {
            const double want = T + (L - T) * inv_ratio;
            if (std::fabs(y - want) > 1e-7) {
                res.fail(std::string("C20:static-slope:") + name,
                         fmt("%s T=%.4f W=%.4f 1/R=%.4f: above the knee input %.4f dB must give %.9f dB, got %.9f", name, T, W, inv_ratio, L, want, y));
                return;
            }
        } else {
            const double dev = (1 - inv_ratio) * W / 8;
            if (y > hard(L) + 1e-7 || y < hard(L) - dev - 1e-7) {
                res.fail(std::string("C20:static-knee-bound:") + name,
                         fmt("%s T=%.4f W=%.4f 1/R=%.4f: inside the knee input %.4f dB gives %.9f dB, outside [%.9f, %.9f] (hard knee minus the largest quadratic rounding)", name, T, W,
                             inv_ratio, L, y, hard(L) - dev, hard(L)));
                return;
            }
        }
    }
    // continuity at both knee edges
    const double d = 1e-4;
    for (double edge : {lo, hi}) {
        const double a = level_out(edge - d);
        const double b = level_out(edge + d);
        if (std::fabs(b - a) > 2 * d + 1e-7) {
            res.fail(std::string("C20:static-knee-continuity:") + name,
                     fmt("%s T=%.4f W=%.4f 1/R=%.4f: output level jumps from %.9f to %.9f dB across the knee edge at %.4f dB (inputs %.1e dB apart)", name, T, W, inv_ratio, a, b, edge,
                         2 * d));
            return;
        }
    }
    // quadratic: third difference vanishes inside the knee
    if (W >= 0.5) {
        const double h = W / 16;
        for (int i = 1; i + 3 <= 15; ++i) {
            const double y0 = level_out(lo + i * h);
            const double y1 = level_out(lo + (i + 1) * h);
            const double y2 = level_out(lo + (i + 2) * h);
            const double y3 = level_out(lo + (i + 3) * h);
            const double d3 = y3 - 3 * y2 + 3 * y1 - y0;
            if (std::fabs(d3) > 1e-7) {
                res.fail(std::string("C20:static-knee-quadratic:") + name, fmt("%s T=%.4f W=%.4f: knee is not quadratic (third difference %.3e at %.4f dB)", name, T, W, d3, lo + i * h));
                return;
            }
        }
    }
    res.inc("probe.static_curve_checked");
}

// smoothing oracles on the quiet period, in the domain the processor smooths in (`dom`: dB or linear gain)
// `initial`: the documented state of a fresh processor (0 dB / closed gate), used when the quiet period starts the stream.
// The transition is measured from the state BEFORE the quiet period, so a gain that jumps to its target on the very first
// quiet sample is seen as a transition of zero length, not as "nothing to measure".
void check_settling(const std::vector<double>& dom, size_t q0, double target, double t_attack_smp, double t_release_smp, int64_t hold_smp, double settle_tol, double min_step,
                    Result& res, const char* name, const std::string& cfg, double initial) {
    const size_t n = dom.size();
    const double g0 = (q0 > 0) ? dom[q0 - 1] : initial;
    const bool falling = target < g0;
    // monotone approach, no overshoot
    for (size_t i = q0; i < n; ++i) {
        const double e0 = ((i == q0) ? g0 : dom[i - 1]) - target;
        const double e1 = dom[i] - target;
        const bool ok = falling ? (e1 <= e0 + 1e-12 && e1 >= -1e-9) : (e1 >= e0 - 1e-12 && e1 <= 1e-9);
        if (!ok) {
            res.fail(std::string("C20:not-monotone:") + name, fmt("%s %s: smoothed gain moves away from / past its target %.9g at quiet sample %zu: %.12g -> %.12g", name, cfg.c_str(), target,
                                                                 i - q0, e0 + target, dom[i]));
            return;
        }
    }
    const double tsmp = falling ? t_attack_smp : t_release_smp;
    const int64_t need = int64_t(std::ceil(10 * tsmp)) + hold_smp + 3;
    if (int64_t(n - q0) >= need) {
        const double err = std::fabs(dom[n - 1] - target);
        if (err > settle_tol) {
            res.fail(std::string("C20:not-settled:") + name, fmt("%s %s: %lld samples (>= 10 time constants of %.1f samples + hold %lld) into a constant envelope the gain is %.12g, target %.12g", name,
                                                                cfg.c_str(), static_cast<long long>(n - q0), tsmp, static_cast<long long>(hold_smp), dom[n - 1], target));
            return;
        }
        res.inc("probe.settled_checked");
        if (std::fabs(target - g0) >= min_step) {
            const int64_t t = t10_90(dom, q0, target, g0);
            const double tol = 0.1 * tsmp + 2;
            if (t < 0 || std::fabs(double(t) - tsmp) > tol) {
                res.fail(std::string("C20:time-constant:") + name,
                         fmt("%s %s: 10%%->90%% transition of the %s gain took %lld samples, configured %s time is %.1f samples", name, cfg.c_str(), falling ? "falling" : "rising",
                             static_cast<long long>(t), falling ? "attack" : "release", tsmp));
                return;
            }
            res.inc(falling ? "probe.attack_time_measured" : "probe.release_time_measured");
        }
    }
}

void run_dyn(const Op& op, Result& res) {
    const int fs = int(op.iarg(0));
    const uint32_t eseed = uint32_t(op.iarg(T_ESEED));
    const int nev = int(op.iarg(T_NEV));
    const double qdb = op.arg(T_QDB);
    const int64_t qn = op.iarg(T_QN);
    const uint32_t fseed = uint32_t(op.iarg(T_FSEED));
    if (fs < 1 || fs > 1000000 || nev < 0 || nev > 64 || qn < 1 || qn > 8000000 || !(qdb >= -160 && qdb <= 40)) {
        res.invalid = true;
        return;
    }
    const bool is_comp = (op.kind == "comp");
    const bool is_lim = (op.kind == "lim");
    const double T = op.arg(1);
    double W = 0, ta = 0, tr = 0, hold = 0;
    int R = 1;
    if (is_comp) {
        R = int(op.iarg(2));
        W = op.arg(3);
        ta = op.arg(4);
        tr = op.arg(5);
        if (!(T >= -50 && T <= 0 && R >= 1 && R <= 50 && W >= 0 && W <= 20 && ta >= 0 && ta <= 4 && tr >= 0 && tr <= 4)) {
            res.invalid = true;
            return;
        }
    } else if (is_lim) {
        W = op.arg(2);
        ta = op.arg(3);
        tr = op.arg(4);
        if (!(T >= -50 && T <= 0 && W >= 0 && W <= 20 && ta >= 0 && ta <= 4 && tr >= 0 && tr <= 4)) {
            res.invalid = true;
            return;
        }
    } else {
        ta = op.arg(2);
        tr = op.arg(3);
        hold = op.arg(4);
        if (!(T >= -140 && T <= 0 && ta >= 0 && ta <= 4 && tr >= 0 && tr <= 4 && hold >= 0 && hold <= 4)) {
            res.invalid = true;
            return;
        }
    }
    const Env env = make_env(eseed, nev, qdb, qn, T, W, false);
    Out o;
    const std::string cfg = fmt("fs=%d T=%.4f R=%d W=%.4f attack=%.6g release=%.6g hold=%.6g quiet=%.4fdB", fs, T, R, W, ta, tr, hold, qdb);
    set_cur_opf("C20 %s %s", op.kind.c_str(), cfg.c_str());
    const char* name = is_comp ? "Compressor" : is_lim ? "Limiter" : "NoiseGate";
    bool ok;
    if (is_comp) {
        dsplib::Compressor p(fs, T, R, W, ta, tr);
        ok = drive_real(p, env, fseed, o, res, name);
    } else if (is_lim) {
        dsplib::Limiter p(fs, T, W, ta, tr);
        ok = drive_real(p, env, fseed, o, res, name);
    } else {
        dsplib::NoiseGate p(fs, T, ta, tr, hold);
        ok = drive_real(p, env, fseed, o, res, name);
    }
    if (!ok) {
        return;
    }
    const size_t n = env.x.size();
    const double ceiling = lin(T);
    // invariants at every sample of the run
    for (size_t i = 0; i < n; ++i) {
        const double g = o.gain[i];
        if (!(g >= 0.0 && g <= 1.0 + 1e-12)) {
            res.fail(std::string("C20:gain-range:") + name, fmt("%s %s: gain %.17g outside [0,1] at sample %zu (input %.9g)", name, cfg.c_str(), g, i, env.x[i]));
            return;
        }
        const double want = env.x[i] * g;
        if (std::fabs(o.out[i] - want) > 1e-12 * std::fabs(want) + 1e-300) {
            res.fail(std::string("C20:out-ne-gain-x:") + name, fmt("%s %s: out[%zu]=%.17g but gain*x=%.17g", name, cfg.c_str(), i, o.out[i], want));
            return;
        }
        if (is_lim && ta == 0 && std::fabs(o.out[i]) > ceiling * (1 + 1e-12)) {
            res.fail("C20:limiter-ceiling", fmt("Limiter %s: zero attack but |out[%zu]|=%.17g exceeds the threshold %.17g (input %.9g)", cfg.c_str(), i, std::fabs(o.out[i]), ceiling, env.x[i]));
            return;
        }
        res.digest.f64(g);
    }
    res.inc("probe.limiter_zero_attack_ceiling_checked", is_lim && ta == 0);
    // static curve of the same parameter set
    if (is_comp) {
        check_static_curve([&] { return dsplib::Compressor(fs, T, R, W, 0, 0); }, T, W, 1.0 / R, res, name);
    } else if (is_lim) {
        check_static_curve([&] { return dsplib::Limiter(fs, T, W, 0, 0); }, T, W, 0.0, res, name);
    }
    if (!res.ok) {
        return;
    }
    // settling on the quiet period
    const size_t q0 = env.quiet_from;
    const double A = lin(qdb);
    if (is_comp || is_lim) {
        // target: the static gain of the same parameter set (zero time constants), measured, not computed
        double target_db;
        {
            arr_real x1(1);
            x1[0] = A;
            if (is_comp) {
                dsplib::Compressor z(fs, T, R, W, 0, 0);
                target_db = todb(z.process(x1).gain[0]);
            } else {
                dsplib::Limiter z(fs, T, W, 0, 0);
                target_db = todb(z.process(x1).gain[0]);
            }
        }
        std::vector<double> gdb(n);
        for (size_t i = 0; i < n; ++i) {
            gdb[i] = todb(o.gain[i]);
        }
        check_settling(gdb, q0, target_db, ta * fs, tr * fs, 0, 1e-6, 0.5, res, name, cfg, 0.0);
    } else {
        const double target = (A >= lin(T)) ? 1.0 : 0.0;
        const int64_t hs = int64_t(std::floor(hold * fs));
        check_settling(o.gain, q0, target, ta * fs, tr * fs, (target == 0.0) ? hs : 0, 1e-6, 0.05, res, name, cfg, 0.0);
        res.inc("probe.gate_hold_then_close", target == 0.0 && hs > 0 && o.gain[q0] > 0.5);
    }
    res.inc("probe.level_step_inside_knee", env.steps_in_knee > 0);
    res.inc("sim.samples", int64_t(n));
    res.inc("sim.milliseconds", int64_t(1000.0 * double(n) / fs));
    Hash h;
    h.str(op.kind);
    h.u64(uint64_t(W > 0) | uint64_t(ta == 0) << 1 | uint64_t(tr == 0) << 2 | uint64_t(qdb > T) << 3 | uint64_t(std::fabs(qdb - T) <= W / 2) << 4 | uint64_t(R > 1) << 5);
    h.u64(uint64_t(std::llround(std::log2(1 + ta * fs))));
    h.u64(uint64_t(std::llround(std::log2(1 + tr * fs))));
    h.u64(uint64_t(std::llround((T + 50) / 10)));
    res.sigs.push_back(h.h);
}

void run_agc(const Op& op, Result& res) {
    const double target = op.arg(0);
    const double maxg = op.arg(1);
    const int avg = int(op.iarg(2));
    const double trise = op.arg(3);
    const double tfall = op.arg(4);
    const bool cplx = op.iarg(5) != 0;
    const uint32_t eseed = uint32_t(op.iarg(T_ESEED));
    const int nev = int(op.iarg(T_NEV));
    const double qdb = op.arg(T_QDB);
    const int64_t qn = op.iarg(T_QN);
    const uint32_t fseed = uint32_t(op.iarg(T_FSEED));
    if (!(target >= 1e-6 && target <= 1e6 && maxg >= 0 && maxg <= 200 && avg >= 1 && avg <= 100000 && trise > 0 && trise <= 0.45 && tfall > 0 && tfall <= 0.45) || nev < 0 ||
        nev > 64 || qn < 1 || qn > 8000000 || !(qdb >= -160 && qdb <= 40)) {
        res.invalid = true;
        return;
    }
    const std::string cfg = fmt("target=%.6g max_gain=%.4fdB avg=%d rise=%.5g fall=%.5g %s quiet=%.4fdB", target, maxg, avg, trise, tfall, cplx ? "complex" : "real", qdb);
    set_cur_opf("C20 agc %s", cfg.c_str());
    const Env env = make_env(eseed, nev, qdb, qn, -20, 0, cplx);
    dsplib::Agc agc(target, maxg, avg, trise, tfall);
    const auto frames = make_framing(FS_HEAVY, fseed, int64_t(env.x.size()), 0, 1, 1);
    std::vector<double> gain;
    std::vector<double> pw;
    size_t k = 0;
    const uint64_t hz = mix(fseed, 0xA6C0);
    const size_t copy_at = (frames.size() >= 2 && hz % 4 == 0) ? 1 + size_t((hz >> 8) % (frames.size() - 1)) : size_t(-1);
    size_t fidx = 0;
    try {
        for (int fr : frames) {
            if (fidx++ == copy_at) {
                // the stream continues on a COPY of the Agc object (whatever a copy is - a handle or a deep copy - it must carry the complete configuration and state)
                dsplib::Agc b = agc;
                agc = b;
                res.inc("fault.copied_mid_stream");
            }
            if (cplx) {
                arr_cmplx x(fr);
                for (int i = 0; i < fr; ++i) {
                    x[i] = cmplx_t{env.x[k + size_t(i)], env.xi[k + size_t(i)]};
                }
                auto r = agc.process(x);
                for (int i = 0; i < fr; ++i) {
                    gain.push_back(r.gain[i]);
                    pw.push_back(r.out[i].re * r.out[i].re + r.out[i].im * r.out[i].im);
                }
            } else {
                auto r = agc.process(to_arr(env.x.data() + k, size_t(fr)));
                for (int i = 0; i < fr; ++i) {
                    gain.push_back(r.gain[i]);
                    pw.push_back(r.out[i] * r.out[i]);
                }
            }
            k += size_t(fr);
        }
    } catch (const std::exception& ex) {
        res.fail("C20:exception:Agc", std::string("Agc::process threw: ") + ex.what());
        return;
    }
    res.inc("fault.segment", int64_t(frames.size()) - 1);
    const double maxlin = std::pow(10.0, maxg / 20.0);
    bool clamp = false;
    for (size_t i = 0; i < gain.size(); ++i) {
        if (!(gain[i] <= maxlin * (1 + 1e-12)) || !(gain[i] >= 0)) {
            res.fail("C20:agc-max-gain", fmt("Agc %s: gain %.17g at sample %zu exceeds max_gain %.17g (or is negative/NaN)", cfg.c_str(), gain[i], i, maxlin));
            return;
        }
        clamp |= (gain[i] >= maxlin * (1 - 1e-9));
        res.digest.f64(gain[i]);
    }
    const double A = lin(qdb);
    const double need_db = 10 * std::log10(target / (A * A));
    // liveness bound in samples: averaging window + contraction of the loop error by |1-2*step| per sample
    const double rho = 1.0 - 2.0 * std::min(trise, tfall);
    const double e0 = std::fabs(std::log(target)) + 2 * 19 + 2 * std::log(maxlin) + 1;
    const int64_t bound = avg + int64_t(1.5 * std::log(e0 / 0.005) / -std::log(rho)) + 100;
    if (qn < bound) {
        res.inc("probe.agc_quiet_period_shorter_than_bound");
    } else if (need_db <= maxg - 0.5) {
        const double got = pw.back();
        if (!(std::fabs(got - target) <= 0.01 * target)) {
            res.fail("C20:agc-target", fmt("Agc %s: after %lld samples of constant envelope %.6g the output power is %.9g, target %.9g (needed gain %.3f dB < max_gain)", cfg.c_str(),
                                           static_cast<long long>(qn), A, got, target, need_db));
            return;
        }
        res.inc("probe.agc_target_reached_checked");
    } else {
        res.inc("probe.agc_needed_gain_above_max");
    }
    res.inc("probe.agc_clamp_reached", clamp);
    res.inc("sim.samples", int64_t(env.x.size()));
    Hash h;
    h.str("agc");
    h.u64(uint64_t(cplx) | uint64_t(clamp) << 1 | uint64_t(need_db <= maxg - 0.5) << 2);
    h.u64(uint64_t(std::llround(std::log2(double(avg)))));
    h.u64(uint64_t(std::llround(std::log10(target) * 2 + 10)));
    h.u64(uint64_t(std::llround(qdb / 10 + 20)));
    res.sigs.push_back(h.h);
}

Plan gen(uint64_t seed, const std::string& tier) {
    Rng r(mix(seed, 0xC20));
    const bool big = (tier == "thorough");
    Plan pl;
    pl.engine = "C20";
    pl.seed = seed;
    pl.tier = tier;
    Op op;
    op.a.assign(NARGS, 0.0);
    const int kind = int(r.below(4));
    const int64_t cap = big ? 400000 : 40000;   // samples available for 10 time constants
    const std::vector<double> rates{8000, 16000, 22050, 44100, 48000, 96000, 192000};
    auto time_const = [&](double fs) {
        const double u = r.real();
        if (u < 0.25) {
            return 0.0;
        }
        const double tmax = std::min(4.0, double(cap) / (10.0 * fs));
        return r.logu(std::min(1.0 / fs, tmax), tmax);
    };
    int64_t qn = 0;
    double thr = -20;
    double knee = 0;
    if (kind == 0) {
        op.kind = "comp";
        const double fs = r.pick(rates);
        thr = r.chance(0.1) ? r.pick(std::vector<double>{-50, 0}) : r.real(-50, 0);
        knee = r.chance(0.3) ? 0 : r.real(0, 20);
        const double ta = time_const(fs);
        const double tr = time_const(fs);
        op.a[0] = fs;
        op.a[1] = thr;
        op.a[2] = double(r.chance(0.1) ? r.pick(std::vector<double>{1, 50}) : double(r.range(1, 50)));
        op.a[3] = knee;
        op.a[4] = ta;
        op.a[5] = tr;
        qn = int64_t(std::ceil(10 * std::max(ta, tr) * fs)) + 50;
    } else if (kind == 1) {
        op.kind = "lim";
        const double fs = r.pick(rates);
        thr = r.chance(0.1) ? r.pick(std::vector<double>{-50, 0}) : r.real(-50, 0);
        knee = r.chance(0.3) ? 0 : r.real(0, 20);
        const double ta = r.chance(0.5) ? 0.0 : time_const(fs);
        const double tr = time_const(fs);
        op.a[0] = fs;
        op.a[1] = thr;
        op.a[2] = knee;
        op.a[3] = ta;
        op.a[4] = tr;
        qn = int64_t(std::ceil(10 * std::max(ta, tr) * fs)) + 50;
    } else if (kind == 2) {
        op.kind = "gate";
        const double fs = r.pick(rates);
        thr = r.real(-80, 0);
        const double ta = time_const(fs);
        const double tr = time_const(fs);
        const double hold = r.chance(0.3) ? 0.0 : r.logu(1.0 / fs, std::min(4.0, double(cap) / (4.0 * fs)));
        op.a[0] = fs;
        op.a[1] = thr;
        op.a[2] = ta;
        op.a[3] = tr;
        op.a[4] = hold;
        qn = int64_t(std::ceil(10 * std::max(ta, tr) * fs)) + int64_t(hold * fs) + 50;
    } else {
        op.kind = "agc";
        const double target = r.logu(0.01, 100);
        const double maxg = r.real(10, 80);
        const int64_t avg = r.logi(1, 1000);
        const double trise = r.logu(2e-3, 0.2);
        const double tfall = r.logu(2e-3, 0.2);
        op.a[0] = target;
        op.a[1] = maxg;
        op.a[2] = double(avg);
        op.a[3] = trise;
        op.a[4] = tfall;
        op.a[5] = r.chance(0.4) ? 1 : 0;
        // loop error contracts by |1 - 2*step| per sample once the power estimate is constant
        const double rho = 1.0 - 2.0 * std::min(trise, tfall);
        const double e0 = std::fabs(std::log(target)) + 2 * 19 + 2 * std::log(std::pow(10.0, maxg / 20.0)) + 1;
        qn = avg + int64_t(1.5 * std::log(e0 / 0.005) / -std::log(rho)) + 100;
    }
    double qdb;
    if (op.kind == "agc") {
        qdb = r.real(-60, 20);
    } else if (op.kind == "gate") {
        qdb = r.chance(0.5) ? thr + r.real(0.05, 30) : thr - r.real(0.05, 40);
    } else {
        const int c = int(r.below(6));
        qdb = (c == 0)   ? r.real(-90, thr - knee / 2 - 0.01)
              : (c == 1) ? thr + knee / 2 + r.real(0.01, 20)
              : (c == 2) ? thr + r.real(-knee / 2, knee / 2)
              : (c == 3) ? thr + knee / 2 + r.logu(1e-3, 0.5)   // barely above the knee: a gain reduction of a few millidecibels
                         : r.real(-60, 20);
    }
    op.a[T_ESEED] = r.seed32();
    op.a[T_NEV] = double(r.range(0, 12));
    op.a[T_QDB] = qdb;
    op.a[T_QN] = double(qn);
    op.a[T_FSEED] = r.seed32();
    pl.ops.push_back(op);
    return pl;
}

Result exec(const Plan& pl) {
    Result res;
    if (pl.ops.empty()) {
        res.invalid = true;
        return res;
    }
    for (const auto& op : pl.ops) {
        if (op.a.size() < NARGS) {
            res.invalid = true;
            break;
        }
        if (op.kind == "comp" || op.kind == "lim" || op.kind == "gate") {
            run_dyn(op, res);
        } else if (op.kind == "agc") {
            run_agc(op, res);
        } else {
            res.invalid = true;
        }
        if (!res.ok || res.invalid) {
            break;
        }
    }
    if (res.invalid) {
        res.ok = true;
        res.vclass.clear();
    }
    const Op& o = pl.ops[0];
    res.sample = fmt("%s a=[%.6g %.6g %.6g %.6g %.6g %.6g] events=%lld quiet=%.3fdB x %lld samples", o.kind.c_str(), o.arg(0), o.arg(1), o.arg(2), o.arg(3), o.arg(4), o.arg(5),
                     static_cast<long long>(o.iarg(T_NEV)), o.arg(T_QDB), static_cast<long long>(o.iarg(T_QN)));
    return res;
}

EngineReg reg({"C20", gen, exec, "dynamics processors under an event-driven level environment on the sample clock"});

}   // namespace
}   // namespace vf
