"""Check orchestration: batches -> violations -> gate -> minimise -> replay -> known findings -> evidence."""
import json
import os
import re
import sys
import time

from . import build, minimise, runner

VERIF = build.VERIF
OUT = os.environ.get("VERIF_OUT", VERIF)   # selftests redirect evidence/replays of mutated trees elsewhere
EVID = os.path.join(OUT, "evidence")
REPLAYS = os.path.join(OUT, "replays")
KNOWN = os.path.join(VERIF, "known_findings.txt")

REAL = ["all of /repo/lib/*.cpp and /repo/include/dsplib/*.h compiled from the current working tree (-O2 -DNDEBUG -DDSPLIB_VERIF, clang 14)",
        "libstdc++ 12, glibc (real threads, real thread_local storage, real allocator under the sanitizer)"]
STUBS = ["scheduler (sim/simsched.cpp: decides which real thread runs at every basic-block edge)", "stream transport / event clock (harness code)",
         "reference models and oracles (harness code)"]

# batches: (engine, flavour, cache_size, runs_quick, runs_thorough)
CHECKS = {
    "C06": {
        "batches": [("C06", "asan", 4, 4000, 60000)],
        "rule": ("one evaluation = one simulated run: 1-6 processor instances (26 kinds: FirFilter R/C, FftFilter R/C and with complex taps on a real stream / real taps on a complex stream, FIRDecimator, FIRInterpolator, "
                 "FIRRateConverter, FIRResampler, Delay R/C, MedianFilter, MAFilter R/C, HilbertFilter, Tuner, Agc R/C, Compressor, Limiter, NoiseGate, "
                 "LMS/NLMS R/C, RLS R/C) with seeded parameters, streams (gaussian, impulses, steps, bursts with silence, tones, 60 dB level changes, 120 dB bursts, short patterns repeated so that whole frames recur) and framings, constructed lazily (next to live siblings; 15 % get a twin with equal integer parameters - half of the twins are fed the SAME samples, HilbertFilter twins may be NEAR twins with the same transition width and a length changed by 2..24) and interleaved on 1-4 simulated threads with churn. Object-lifetime events inside a stream: 1 in 5 instances is replaced mid-stream by a copy of itself, forked into original + copy, replaced by a move-constructed successor, or copy-ASSIGNED over a used object of the same configuration; 1 in 7 is offered a call of invalid shape that must be rejected without effect. "
                 "5 % of the instances (thorough 12 %) additionally enumerate ALL 2^(n-1) compositions of their 2..9 (11) granule stream, each on a fresh instance. A case is non-trivial when the stream was cut into >= 2 frames; cases are distinct by (kind, log2 memory class, framing style, "
                 "{frame shorter than memory, single-sample frame, frame spanning two internal blocks}, exact composition for the <=12-granule "
                 "bitmask framings)."),
        "assumptions": ["the one-shot output of a fresh instance of the same class is the reference (metamorphic): a defect that changes one-shot and "
                        "chunked output identically belongs to C07/C08, not C06", "tolerance 1e-9 of the LOCAL output level (max |reference| over the last 4 x memory + 64 samples, at least 1e-6 of the global scale)",
                        "frames are non-empty multiples of the documented granule"],
    },
    "C14": {
        "batches": [("C14", "asan", 4, 6000, 200000)],
        "rule": ("one evaluation = one simulated run of 1-3 streams: Tuner (fs 8..1e5, integer / half-integer / rational / arbitrary fractional f with "
                 "|f| <= fs/2, stream of 2..7 x fs samples so that the internal counter wraps several times; 4 % with fs in (65 536, 100 000] and |f| near fs/2; a quarter of the tuners get a sibling with the same fs and integer part of f) or HilbertFilter (requested length 31..401 "
                 "odd and even), each cut into frames by the transport. Non-trivial: Tuner stream with >= 1 counter wrap and >= 2 frames, or Hilbert "
                 "stream with >= 2 frames; distinct by (processor, log2 fs or length class, fractional/negative f, wrap inside frame / on boundary, "
                 "number of wraps, framing style)."),
        "assumptions": ["reference phase: exact integer reduction of trunc(f)*k mod fs plus the fractional part in long double", "tolerance 1e-7*|x[k]| for the Tuner; exact equality for the delayed real part; the imaginary part of every (sub-sampled for long streams) HilbertFilter output sample must equal the filter's own impz() applied to the true input history in long double (1e-9 of sum|h| max|x|): state across calls, not the quality of the taps",
                        "what hilbert() computes and the 1e-3 quadrature accuracy of the designed filter are pure numerics and are NOT decided by this check; only the history independence of hilbert(x) / hilbert(x, n) is (1 run in 4 calls them with 3-6 lengths sharing a power-of-two bucket, long first, and compares every result bitwise-close with the same call in a fresh thread)"],
    },
    "C20": {
        "batches": [("C20", "asan", 4, 20000, 400000)],
        "rule": ("one evaluation = one simulated run of one processor (Compressor / Limiter / NoiseGate / Agc) with seeded parameters over the property's grid, "
                 "driven by 0-12 environment events on the sample clock (level steps biased to the knee edges +-0.01 dB, noise, silence, bursts, ramps) "
                 "followed by a quiet period at constant envelope of >= 10 time constants (+ hold); arbitrary framing. Every run is non-trivial (invariants are "
                 "checked at every sample); cases are distinct by (processor, knee>0, zero attack, zero release, quiet level above threshold / inside knee, "
                 "ratio>1, log2 attack samples, log2 release samples, threshold decade) resp. for Agc (complex, clamp reached, reachable target, log2 "
                 "averaging length, target and level decades)."),
        "assumptions": ["10%-90% convention for attack/release times (the MATLAB convention the headers implement with log 9), measured in the domain the processor smooths in",
                        "settling target of Compressor/Limiter = static gain of the same parameter set measured with zero time constants; the static curve itself is "
                        "checked separately (unity below the knee, slope 1/R or flat above, continuous at both knee edges within 2e-4 dB, monotone on a 0.01 dB grid, "
                        "within the hard knee and its largest quadratic rounding (1-1/R)W/8, vanishing third difference)",
                        "time constants are limited so that 10 of them fit in 40k (quick) / 400k (thorough) samples; 4 s at 192 kHz is therefore not simulated",
                        "Agc step sizes 0.002..0.2; settling bound derived from the loop contraction |1-2*step| per sample"],
    },
    "C12": {
        "batches": [("C12", "asan", 4, 12000, 100000)],
        "rule": ("one evaluation = one simulated history of one adaptive filter (LMS / NLMS / RLS, real or complex, length 2..64, parameters over the stable "
                 "range, unknown noise-free FIR system no longer than the filter, white input): 1-10 events {frame(n), n single-sample frames, lock, unlock} "
                 "(plus input pauses; 1 in 2 unknown systems has a bulk delay) followed by a settling phase whose length is the liveness bound computed from the parameters. Oracles per call: e = d - y, a-priori output from coeffs() read before the call, locked = fixed FIR with unchanged coeffs(), and on single-sample LMS/NLMS calls the update recursion c' = leak c + mu e conj(u) (/(|u|^2 + eps)); a copy made mid-stream is fed the same calls and must agree bit for bit; a call with mismatched x/d lengths must be rejected and leave coeffs() and every later y/e untouched. Non-trivial: >= 1 lock toggle strictly "
                 "inside the frame sequence; distinct by (algorithm, type, event pattern)."),
        "assumptions": ["complex data: either conjugation convention (sum c*x or sum conj(c)*x) is accepted, but one per run, and the same one for the convergence target",
                        "convergence bounds: NLMS 5*14*L/(mu(2-mu))+200 samples (leak 1); RLS 2x the first n with (lambda^n/delta)/R_n < 3e-4 plus 10 L; runs "
                        "whose bound exceeds the tier's simulated-time cap get a short settling phase and no liveness verdict (counted as convergence_not_applicable)",
                        "LMS (un-normalised) convergence is not claimed by the property and not checked",
                        "real RLS, L <= 8, <= 200 unlocked samples: long-double normal equations are the reference for the least-squares clause"],
    },
    "C18": {
        "batches": [("C18", "asan", 4, 4000, 300000)],
        "rule": ("one evaluation = one scenario: a preamble (Zadoff-Chu, PN +-1 or chirp, length 16..512, amplitude over 60 dB, optional noise >= 30 dB below it) "
                 "arrives so that its last sample falls on a seeded stream index (every residue modulo frame_len(), biased to the first/last sample of a frame and to "
                 "preambles straddling a frame boundary); the transport delivers 1-4 frames per call and keeps delivering after the detection (nothing more may be reported); 15 % of the streams carry no preamble; the caller's reference array is overwritten as soon as the detector exists (the detector owns its reference); 2 in 7 detectors have already processed another stream and were reset(); 1 in 5 histories contains a call of unsupported length that must be rejected without side effect. A scenario is judged "
                 "only if an independent long-double evaluation of the documented score gives the true peak >= 1.1 x threshold and every other score <= 0.9 x "
                 "threshold (others are discarded and counted). Distinct by (preamble kind, length/8, residue of the last sample modulo the frame length, straddle, "
                 "multi-frame call, noise)."),
        "assumptions": ["score reference uses rms with 1/n; the reported score is accepted within 5 % of it (the n vs n-1 choice inside rms belongs to C17)",
                        "one preamble per stream (the property covers one); checking stops at the first detection",
                        "what finddelay / gccphat / delayseq / peakloc compute is a pure function of their arguments and is NOT decided by this check; only their history independence is (call histories with lengths sharing a power-of-two bucket, each result compared with the same call in a fresh thread)"],
    },
    "C19": {
        "batches": [("C19", "asan", 4, 6000, 1000000), ("C19", "tsan", 4, 2000, 200000)],
        "rule": ("one evaluation = one simulated run of 1-4 (thorough: 8) threads, each executing a prefix of generator calls (rand / randn / randi in every "
                 "overload incl. single-value, negative and wider-than-2^31 ranges, awgn real/complex), rng(s) (30 %: the same seed twice with 0-2 calls in between), and a suffix, interleaved by the scheduler at basic-block edges "
                 "(every thread is the other threads' disturbance: they seed and draw between any two of its draws); 5 % of the sequences additionally see thread churn - 1-70 short-lived threads that draw once and exit while the sequence is in progress (the reference is the undisturbed sequence). Non-trivial: >= 2 threads or >= 3 ops; "
                 "distinct by the sequence of (thread, op kind, first argument)."),
        "assumptions": ["reference: the same suffix after rng(s) in a fresh OS thread, and again after a different generated prefix; exact (bitwise) equality",
                        "tsan flavour: the scheduler hands the token over with raw futex words TSan cannot see, so any unsynchronised sharing of generator state "
                        "between threads is reported independent of timing",
                        "awgn power calibration and snr/sinad/thd accuracy are statistical / numeric properties and are NOT decided by this check; only the history independence of thd / sinad / snr (and of awgn after rng(s)) is: a record measured after longer records of the same FFT size must give the value a fresh thread gives"],
        "extra_stubs": [],
    },
    "C10": {
        "batches": [("C10", "asan", 1, 3000, 60000), ("C10", "asan", 2, 3000, 60000), ("C10", "asan", 4, 3000, 60000)],
        "rule": ("one evaluation = one simulated history of 8-40 requests (thorough: 1 % of the runs have 10^4 requests over 40 lengths) over an alphabet of "
                 "3-8 lengths mixing cache-bypass sizes, powers of two, primes <= 41, primes > 41, composites sharing prime sub-plans and even-real lengths: "
                 "fft/rfft/ifft/irfft/fft(x,n)/xcorr/hilbert/FftFilter/czt (a = 1 and a != 1)/welch/stft+istft/gccphat+finddelay/thd/resample, a sweep over a whole family of lengths, a plan object applied to an input of ANOTHER length (rejected, inside the history), construct-and-keep FftPlan/FftPlanR/IfftPlan/IfftPlanR/CztPlan in 4 slots, solve through "
                 "a kept plan, drop it; 1-3 threads in a hand-over chain (a thread exits, its caches are destroyed, its kept plans live on in the successor). "
                 "Three builds with DSPLIB_FFT_CACHE_SIZE 1, 2, 4. Non-trivial: >= 1 eviction; distinct by (capacity, request sequence). states = distinct "
                 "(capacity, complex key list, real key list); transitions = distinct (state, request, state')."),
        "assumptions": ["the cache-access events and key lists come from the DSPLIB_VERIF hook in lib/fft/fft.cpp / lib/lru-cache.h (read-only, add-only)",
                        "the reference LRU is driven by the accesses that happened (it does not predict which sub-plans the planner asks for) and, in addition, counts a top-level fft/rfft/ifft/irfft/plan-construction request that was answered WITHOUT any cache access as a use of the (cache, length) the same request asked for when it last consulted a cache in this thread (learned, not assumed): on a tree that looks every request up this never fires (probe request_not_most_recent_in_event_model = 0)",
                        "retention clause is checked for single-length requests (fft, rfft, ifft, irfft): repeated immediately they must cause no miss event",
                        "results are compared with the same call in a fresh OS thread (tolerance 1e-9 of scale); a kept plan re-solving its first input must "
                        "reproduce its first output bit for bit"],
    },
    "C09": {
        "batches": [("C09", "asan", 4, 5000, 150000), ("C09", "asan", 1, 1200, 30000), ("C09", "asan", 2, 1200, 30000), ("C09", "tsan", 4, 2000, 40000),
                    ("C09", "tsan", 1, 500, 10000), ("C09F", "tsan", 4, 160, 1500, 1), ("C09F", "asan", 4, 160, 1500, 1)],
        "rule": ("one evaluation = one simulated run: 2-8 (thorough: 16) real threads, 3-10 ops each (fft/rfft/ifft/irfft over power-of-two, composite and prime "
                 "lengths, xcorr, FftFilter, welch, mscohere, stft+istft, hilbert, thd/sinad, czt, gccphat, finddelay, medfilt, resample, window::kaiser, a random stream processor, rng/rand/randn/randi/awgn, primes/factor) plus 0-3 plan "
                 "objects (FftPlan, FftPlanR, IfftPlan, IfftPlanR, CztPlan of every length class) created before the threads start and solved concurrently; 0-2 const input arrays created before the threads start and passed by const reference to calls in several threads (fft/ifft/rfft/irfft/xcorr/plan solve/FirFilter/reductions/copies; they must be bitwise unchanged afterwards); 0-2 processor prototypes (already running) from which threads copy-construct their own processor and stream through it concurrently (handle classes Agc/FIRResampler get a fresh object instead: their copies share state by design); "
                 "12 % of the threads only start when another thread has exited (cold caches). Schedule policy per run: op-boundary switches, uniform "
                 "basic-block preemption (p log-uniform 1e-5..1e-2), PCT with 1-3 priority change points, or one starved thread. Builds with cache size 1/2/4; "
                 "engine C09F: one run per process without warm-up so that the guarded static in window.cpp is first used inside the simulation. "
                 "Non-trivial: >= 1 switch besides the start; distinct by (schedule hash, result digest)."),
        "assumptions": ["result oracle: the same thread's op list run alone in a fresh thread, using the same shared plan objects (tolerance 1e-9; random draws, primes, "
                        "factor exactly)", "race oracle: ThreadSanitizer (clang 14) with the scheduler's futex hand-off invisible to it; first report ends the run",
                        "preemption granularity is the basic-block edge of instrumented code (library, headers, harness); libstdc++/libc internals are not preempted"],
        "required_probes": ["probe.shared_plan_solved_by_2plus_threads", "fault.preempt", "fault.thread_exit_and_cold_restart", "probe.const_input_array_used_by_2plus_threads", "probe.prototype_copied_and_run_by_2plus_threads"],
    },
    "C05": {
        "batches": [("C05", "asan", 4, 20000, 4000000)],
        "rule": ("one evaluation = one call program: 8 pool arrays, then 1-12 ops from a catalogue of 40 op kinds covering the public entry points of include/dsplib/*.h "
                 "(array arithmetic / comparison / index lists / masks / slices incl. initializer lists, container utilities, reductions, fft/ifft/rfft/irfft/hilbert "
                 "with pad/truncate, every plan kind with array and raw-pointer solve, czt, all 26 stream-processor kinds, adaptive filters, FIR design, windows, "
                 "resamplers, median, stft/istft/iscola, welch/mscohere, snr/sinad/thd, xcorr/finddelay/gccphat/findpeaks, random, isprime/factor/nextprime/primes, "
                 "from_file over the simulated stdio layer, PreambleDetector, Tuner/Delay/Agc, dynamics constructors). In 80 % of the programs one op (in a third, "
                 "several) is a MISUSE op: exactly one length/index relation is perturbed (0, 1, 2, 3, n-1, n+1, 2n; index lists with -1, -n, n, n+2, empty; RHS "
                 "longer than the target; plan applied to another length; frame not a multiple of the granule; stdio fault). Programs continue after exceptions on the "
                 "same objects. distinct_nontrivial = distinct (op kind, outcome returned/threw, argument-class tuple) executed."),
        "assumptions": ["in-contract classes: scalar element access and peakloc only with valid indices; raw-pointer entry points only with buffers as long as the n passed "
                        "(n itself may differ from the plan size); reductions and signal-processing free functions on non-empty arrays; sizes/orders >= 1; overlaps < window "
                        "length; nextprime/primes <= 2^22 (documented as slow above 2^20); from_real<T>/from_complex<T> only to floating-point T (conversion of non-representable values to an integer T is the caller's business); sample VALUES are otherwise unconstrained: 8-25 % of the arrays and streams carry NaN / +-Inf samples; allocation failure is not injected (DESIGN 2.4)",
                        "edge budget per op = max(2e6, 50 x cost model, 40 N^2 for the largest live pool array); the largest fraction of its budget any op of each kind used is reported per kind (max_budget_used_permille.<kind>)",
                        "oracle: returns or throws std::exception; no ASan/UBSan report, signal, std::terminate or budget overrun. Results are not compared with anything"],
        "extra_stubs": ["stdio layer (sim/simio.cpp: fopen/fseek/fread/feof/fclose wrapped at link time, in-memory files with per-file fault plans)"],
    },
}


def in_domain(pid, vclass):
    """Routing. Engine-oracle classes carry the property id of their engine. Sanitizer reports (asan/ubsan/tsan), hangs,
    std::terminate and aborts are reported under the property of the check that observed them: every engine except C05
    issues only in-contract calls, so undefined behaviour, a crash or a call that never returns inside the mechanism a
    check exercises means that mechanism does not do what the property says (it is a C05 violation as well; the detail
    text says so). Only the simulator's own infrastructure classes are never a property verdict."""
    return not vclass.startswith("infra:")


def load_known():
    findings, fixed = [], []
    if os.path.exists(KNOWN):
        for ln in open(KNOWN):
            ln = ln.strip()
            if ln.startswith("finding:"):
                m = re.match(r"finding:\s+property=(\S+)\s+sig=(\S+)\s*(.*)", ln)
                if m:
                    findings.append({"property": m.group(1), "sig": m.group(2), "text": m.group(3)})
            elif ln.startswith("fixed:"):
                fixed.append(ln)
    return findings, fixed


def _merge_ctr(dst, src, prefix=""):
    for k, v in src.items():
        if k.startswith("max_"):
            dst[prefix + k] = max(dst.get(prefix + k, 0), v)
        else:
            dst[prefix + k] = dst.get(prefix + k, 0) + v


def history_violation(pid, rec, exe, engine, tier, log, obs):
    """A violation that does not reproduce from its own plan in a fresh process may depend on PROCESS-WIDE state left
    behind by earlier runs of the same worker (e.g. a static cache introduced by a change). That is still deterministic:
    replay the worker's run history i0..idx in one fresh process, twice; shrink the history from the front."""
    if rec.chunk_i0 is None or rec.base is None or rec.index <= rec.chunk_i0:
        return None

    def reproduces(i0):
        a = runner.run_history(exe, engine, rec.base, i0, rec.index, tier)
        return a is not None and a.verdict == "VIOL" and a.vclass == rec.vclass

    if not (reproduces(rec.chunk_i0) and reproduces(rec.chunk_i0)):
        return None
    # shortest suffix of the history that still reproduces (geometric search, then refine)
    best = rec.chunk_i0
    k = 1
    while rec.index - k > rec.chunk_i0:
        if reproduces(rec.index - k):
            best = rec.index - k
            break
        k *= 2
    os.makedirs(REPLAYS, exist_ok=True)
    safe = re.sub(r"[^A-Za-z0-9_.-]+", "_", rec.vclass)[:80]
    path = os.path.join(REPLAYS, "%s-%s-%d.history" % (pid, safe, rec.seed))
    with open(path, "w") as f:
        f.write("engine %s\nbatchreplay %d %d %d %s\nproperty %s\nexpect %s\nnote flavour=%s cache=%d worker=%s\n" %
                (engine, rec.base, best, rec.index, tier, pid, rec.vclass, rec.flavour, rec.cache, os.path.basename(exe)))
        f.write("note the run with index %d (seed %d) violates the property only after runs %d..%d of the same worker process: the outcome depends on "
                "process-wide state that survives a run (fresh-process replay of the single plan gave %s)\n" % (rec.index, rec.seed, best, rec.index - 1, obs[0][:2]))
    if not reproduces(best):
        return None
    log("  %s reproduces only with process history: runs %d..%d in one process (history shrunk from %d runs)" % (rec.vclass, best, rec.index, rec.index - rec.chunk_i0 + 1))
    return {"vclass": rec.vclass, "replay": path, "seed": rec.seed,
            "detail": "depends on process-wide state: reproduces when runs %d..%d execute in one process, not from a fresh process | %s" % (best, rec.index, rec.detail)}


def handle_violation(pid, rec, exe, engine, tier, log, shrink=True):
    """Gate, minimise, write replay, confirm. Returns dict(vclass, replay, detail) or raises SystemExit(2)."""
    if rec.vclass in ("hang:no-progress", "hang:wall-clock"):
        shrink = False   # every execution of such a plan costs minutes of wall clock
    plan = runner.gen_plan(exe, engine, rec.seed, tier)
    if not plan.startswith("engine "):
        print("INFRA-ERROR cannot regenerate plan for seed %d: %s" % (rec.seed, plan[:200]), flush=True)
        raise SystemExit(2)
    # gate: the same plan twice in fresh processes must give the same verdict, class and digest
    obs = []
    for _ in range(2):
        recs, rc, tail = runner.exec_plan(exe, plan)
        r = recs[0] if recs else None
        obs.append((r.verdict, r.vclass, r.digest) if r else ("NONE", "", ""))
    # The VERDICT must reproduce in both fresh-process replays. The class usually does too; for memory-unsafe defects (a
    # use-after-free reads garbage, several sanitizer reports compete) the class or the computed values may vary between
    # executions of the same plan: then the plan is reported unshrunk under the class of the first replay.
    unstable = False
    if obs[0][0] == "VIOL" and obs[1][0] == "VIOL" and (obs[0][1] != obs[1][1] or obs[0][1] != rec.vclass):
        if obs[0][1] == obs[1][1]:
            log("  note: batch class %s, both fresh-process replays give %s: reported under the replayed class" % (rec.vclass, obs[0][1]))
        else:
            log("  note: seed %d violates the property in every execution but under varying classes (%s / %s / %s): memory-unsafe behaviour; not shrunk" %
                (rec.seed, rec.vclass, obs[0][1], obs[1][1]))
            unstable = True
            shrink = False
        rec.vclass = obs[0][1]
    if obs[0][0] != "VIOL" or obs[1][0] != "VIOL":
        hist = history_violation(pid, rec, exe, engine, tier, log, obs)
        if hist is not None:
            return hist
        print("INFRA-ERROR nondeterministic or non-reproducible violation seed=%d batch=%s replays=%s" % (rec.seed, (rec.verdict, rec.vclass, rec.digest), obs),
              flush=True)
        raise SystemExit(2)
    if obs[0][2] != obs[1][2]:
        log("  note: %s reproduces in both fresh-process replays, but the computed values differ between them (memory-unsafe behaviour)" % rec.vclass)
    sh = minimise.Shrinker(exe, plan, rec.vclass, max_execs=400 if shrink else 0)
    small = sh.run(pinned_sched=rec.sched if rec.nthr > 1 else None) if shrink else plan
    if shrink:
        sh.max_execs += 1
        if not sh.fails(small):
            small = plan   # should not happen; fall back to the unshrunk plan
    os.makedirs(REPLAYS, exist_ok=True)
    safe = re.sub(r"[^A-Za-z0-9_.-]+", "_", rec.vclass)[:80]
    path = os.path.join(REPLAYS, "%s-%s-%d.plan" % (pid, safe, rec.seed))
    with open(path, "w") as f:
        f.write(small)
        f.write("property %s\nexpect %s\nnote flavour=%s cache=%d worker=%s shrink_execs=%d\n" % (pid, rec.vclass, rec.flavour, rec.cache, os.path.basename(exe), sh.execs))
    # confirm by replaying the file in a fresh process
    recs, rc, tail = runner.exec_plan(exe, open(path).read())
    if not any(r.verdict == "VIOL" and (unstable or r.vclass == rec.vclass) for r in recs):
        print("INFRA-ERROR replay file %s does not reproduce %s" % (path, rec.vclass), flush=True)
        raise SystemExit(2)
    detail = recs[0].detail if recs and recs[0].detail else rec.detail
    log("  minimised %s: %d ops -> %d ops, %d shrink executions" % (rec.vclass, plan.count("\nop "), small.count("\nop "), sh.execs))
    return {"vclass": rec.vclass, "replay": path, "detail": detail, "seed": rec.seed}


def run_check(pid, tier, seed, nworkers=None, runs_override=None):
    cfg = CHECKS[pid]
    t0 = time.time()
    nworkers = nworkers or (os.cpu_count() or 4)
    flavours = sorted({b[1] for b in cfg["batches"]})
    root = build.build(flavours)
    log = lambda s: print(s, flush=True)
    all_recs = []
    ctr = {}
    wall_batches = 0.0
    infra = []
    per_batch = []
    for bt in cfg["batches"]:
        engine, flavour, cache, nq, nt = bt[:5]
        chunk = bt[5] if len(bt) > 5 else None
        n = nq if tier == "quick" else nt
        if runs_override:
            n = runs_override
        exe = build.worker_path(flavour, cache, root)
        b = runner.Batch(exe, engine, seed * 1000003 + cache * 101 + (7 if flavour == "tsan" else 0), n, tier, nworkers if flavour == "asan" else max(1, nworkers),
                         flavour, cache, chunk=chunk)
        recs = b.run()
        wall_batches += b.wall
        infra += b.infra_errors
        for r in recs:
            r.exe = exe
            r.engine = engine
        all_recs += recs
        per_batch.append({"engine": engine, "flavour": flavour, "cache_size": cache, "runs": len(recs), "wall_s": round(b.wall, 2)})
        log("[%s] batch engine=%s flavour=%s cache=%d runs=%d wall=%.1fs" % (pid, engine, flavour, cache, len(recs), b.wall))
        if b.hangs >= 2:
            # runs that never return cost minutes each: what has been seen is reported, the remaining batches are skipped
            log("[%s] batch cut short after %d runs without progress; remaining batches skipped" % (pid, b.hangs))
            break
    if infra:
        for e in infra[:5]:
            print("INFRA-ERROR " + e, flush=True)
        raise SystemExit(2)
    stuck = [r for r in all_recs if r.vclass == "infra:stuck"]
    if stuck:
        print("INFRA-ERROR simulator stuck at seed %d" % stuck[0].seed, flush=True)
        raise SystemExit(2)

    sigs, states, trans, interleavings = set(), set(), set(), set()
    samples = []
    n_invalid = 0
    for r in all_recs:
        _merge_ctr(ctr, r.ctr)
        sigs.update(r.sigs)
        states.update(r.states)
        trans.update(r.trans)
        if r.nthr > 1 and r.sh:
            interleavings.add(r.sh)
        if r.verdict == "INVALID":
            n_invalid += 1
        if r.sample and len(samples) < 8 and (r.index % max(1, len(all_recs) // 8) == 0):
            samples.append({"seed": r.seed, "case": r.sample})
    if not samples:
        samples = [{"seed": r.seed, "case": r.sample or "(no description)"} for r in all_recs[:3]]

    # violations: one representative (lowest run index) per class
    viols = sorted([r for r in all_recs if r.verdict == "VIOL"], key=lambda r: (r.flavour, r.cache, r.index))
    by_class = {}
    for r in viols:
        by_class.setdefault(r.vclass, r)
    counts = {}
    for r in viols:
        counts[r.vclass] = counts.get(r.vclass, 0) + 1
    if counts:
        log("[%s] violation classes in this batch: %s" % (pid, "; ".join("%s x%d" % kv for kv in sorted(counts.items(), key=lambda kv: -kv[1]))))
    findings, _fixed = load_known()
    known_sigs = {f["sig"]: f for f in findings if f["property"] == pid}
    reported = []
    known_hit = []
    classes = [(c, r) for c, r in by_class.items() if in_domain(pid, c)]
    foreign = [(c, r) for c, r in by_class.items() if not in_domain(pid, c)]
    for c, r in foreign:
        print("NOTE: %s run seed=%d ended in an infrastructure event (%s)" % (pid, r.seed, c), flush=True)
    for ci, (vclass, r) in enumerate(classes[:12]):
        info = handle_violation(pid, r, r.exe, r.engine, tier, log, shrink=(ci < 4))
        if vclass in known_sigs:
            known_hit.append((vclass, known_sigs[vclass], info))
        else:
            reported.append(info)
    for vclass, kf, info in known_hit:
        print("KNOWN-FINDING: property=%s sig=%s %s (replay %s)" % (pid, vclass, kf["text"], info["replay"]), flush=True)
    for info in reported:
        print("VIOLATION property=%s replay=%s" % (pid, info["replay"]), flush=True)
        print("  class=%s seed=%d %s" % (info["vclass"], info["seed"], info["detail"][:600]), flush=True)

    wall = time.time() - t0
    nruns = len(all_recs)
    faults = {k[len("fault."):]: v for k, v in ctr.items() if k.startswith("fault.")}
    probes = {k[len("probe."):]: v for k, v in ctr.items() if k.startswith("probe.")}
    simc = {k[len("sim."):]: v for k, v in ctr.items() if k.startswith("sim.")}
    other = {k: v for k, v in ctr.items() if not k.startswith(("fault.", "probe.", "sim."))}
    cov = {
        "evaluations": nruns,
        "distinct_nontrivial": len(sigs),
        "rule": cfg["rule"],
        "samples": samples,
        "runs_per_hour": int(nruns / wall_batches * 3600) if wall_batches > 0 else 0,
        "seeds": {"base": seed, "derivation": "run seed = splitmix64(base*1000003 + 101*cache_size (+7 for the tsan flavour), run index) >> 1", "runs": nruns},
        "simulated_time": simc,
        "faults_fired": faults,
        "probes_hit": probes,
        "other_counters": other,
        "distinct_interleavings": len(interleavings),
        "interleaving_measure": "distinct hashes of the taken (yield index, thread) switch lists over runs with >= 2 simulated threads",
        "batches": per_batch,
        "invalid_plans": n_invalid,
        "violation_classes": sorted(c for c, _ in classes),
        "foreign_events_routed_to_C05": sorted(c for c, _ in foreign),
        "known_findings_matched": [k for k, _, _ in known_hit],
        "components_real_code": REAL,
        "components_stubbed": STUBS + cfg.get("extra_stubs", []),
    }
    if states:
        cov["states"] = len(states)
        cov["transitions"] = len(trans)
    ev = {
        "property_id": pid,
        "tier": tier,
        "seed": seed,
        "level": "exploration",
        "coverage": cov,
        "assumptions": cfg["assumptions"],
        "wall_s": round(wall, 2),
        "violations": len(reported),
    }
    os.makedirs(EVID, exist_ok=True)
    tmp = os.path.join(EVID, pid + ".json.tmp")
    with open(tmp, "w") as f:
        json.dump(ev, f, indent=1, sort_keys=True)
    os.replace(tmp, os.path.join(EVID, pid + ".json"))
    log("[%s] tier=%s runs=%d distinct_nontrivial=%d interleavings=%d violations=%d known=%d wall=%.1fs" %
        (pid, tier, nruns, len(sigs), len(interleavings), len(reported), len(known_hit), wall))
    # a probe stuck at zero is a self-test failure, not a property failure: report it loudly but do not fail the check
    dead = [k for k in cfg.get("required_probes", []) if ctr.get(k, 0) == 0]
    if dead:
        log("[%s] NOTE probes at zero in this run: %s" % (pid, ", ".join(dead)))
    return 1 if reported else 0


def replay(path):
    text = open(path).read()
    mb = re.search(r"^batchreplay (\d+) (\d+) (\d+) (\S+)", text, re.M)
    if mb:
        mf = re.search(r"^note flavour=(\S+) cache=(\d+)", text, re.M)
        me = re.search(r"^engine (\S+)", text, re.M)
        mp = re.search(r"^property (\S+)", text, re.M)
        root = build.build((mf.group(1),))
        exe = build.worker_path(mf.group(1), int(mf.group(2)), root)
        r = runner.run_history(exe, me.group(1), int(mb.group(1)), int(mb.group(2)), int(mb.group(3)), mb.group(4))
        if r is not None and r.verdict == "VIOL":
            print("replay(history): verdict=VIOL class=%s %s" % (r.vclass, r.detail[:600]))
            print("VIOLATION property=%s replay=%s" % (mp.group(1) if mp else "?", path))
            return 1
        print("replay(history): no violation")
        return 0
    m = re.search(r"^note .*worker=(\S+)", text, re.M)
    mf = re.search(r"^note flavour=(\S+) cache=(\d+)", text, re.M)
    flavour = mf.group(1) if mf else "asan"
    cache = int(mf.group(2)) if mf else 4
    root = build.build((flavour,))
    exe = build.worker_path(flavour, cache, root)
    mexp = re.search(r"^expect (\S+)", text, re.M)
    mp = re.search(r"^property (\S+)", text, re.M)
    recs, rc, tail = runner.exec_plan(exe, text)
    for r in recs:
        print("replay: verdict=%s class=%s digest=%s %s" % (r.verdict, r.vclass, r.digest, r.detail[:800]))
        for ln in r.noise[:60]:
            print("    " + ln)
    if any(r.verdict == "VIOL" for r in recs):
        r = [x for x in recs if x.verdict == "VIOL"][0]
        print("VIOLATION property=%s replay=%s" % (mp.group(1) if mp else "?", path))
        if mexp and mexp.group(1) != r.vclass:
            print("  note: expected class %s, got %s" % (mexp.group(1), r.vclass))
        return 1
    print("replay: no violation")
    return 0
