"""Shrinks a failing plan while the SAME violation class persists (ddmin over ops, schedule, arguments)."""
from . import runner


class Shrinker:
    def __init__(self, exe, plan_text, vclass, max_execs=400, timeout=120):
        self.exe = exe
        self.vclass = vclass
        self.execs = 0
        self.max_execs = max_execs
        self.timeout = timeout
        self.head, self.ops, self.sched = self._split(plan_text)

    @staticmethod
    def _split(text):
        head, ops, sched = [], [], None
        for ln in text.splitlines():
            if ln.startswith("op "):
                ops.append(ln)
            elif ln.startswith("sched"):
                sched = ln.split()[1:]
            elif ln.strip():
                head.append(ln)
        return head, ops, sched

    def text(self, ops=None, sched="keep", head=None):
        ops = self.ops if ops is None else ops
        sched = self.sched if sched == "keep" else sched
        head = self.head if head is None else head
        out = list(head) + list(ops)
        if sched is not None:
            out.append("sched " + " ".join(sched))
        return "\n".join(out) + "\n"

    def fails(self, text):
        if self.execs >= self.max_execs:
            return False
        self.execs += 1
        recs, rc, tail = runner.exec_plan(self.exe, text, timeout=self.timeout)
        return any(r.verdict == "VIOL" and r.vclass == self.vclass for r in recs)

    def _ddmin(self, items, make_text, keep_min=0):
        n = 2
        while len(items) > keep_min and n <= max(2, len(items)):
            chunk = max(1, len(items) // n)
            reduced = False
            for i in range(0, len(items), chunk):
                cand = items[:i] + items[i + chunk:]
                if len(cand) < keep_min:
                    continue
                if self.fails(make_text(cand)):
                    items = cand
                    n = max(n - 1, 2)
                    reduced = True
                    break
            if not reduced:
                if chunk == 1:
                    break
                n = min(len(items), n * 2)
            if self.execs >= self.max_execs:
                break
        return items

    def run(self, pinned_sched=None):
        # 1. ops
        self.ops = self._ddmin(self.ops, lambda c: self.text(ops=c), keep_min=1)
        # 2. pin the schedule that was actually taken, then shrink its switch points
        if pinned_sched and self.sched is None:
            cand = pinned_sched.split()
            if self.fails(self.text(sched=cand)):
                self.sched = cand
        if self.sched:
            self.sched = self._ddmin(self.sched, lambda c: self.text(sched=c), keep_min=0)
        # 3. arguments toward small values
        self._shrink_args()
        # 4. ops again (arguments may have made some redundant)
        if len(self.ops) > 1:
            self.ops = self._ddmin(self.ops, lambda c: self.text(ops=c), keep_min=1)
        return self.text()

    def _shrink_args(self):
        for oi in range(len(self.ops)):
            toks = self.ops[oi].split()
            # "op" thr kind a0 a1 ...
            for ai in range(3, len(toks)):
                try:
                    v = float(toks[ai])
                except ValueError:
                    continue
                if v != int(v) or abs(v) > 4e9:
                    continue
                v = int(v)
                cands = []
                for c in (0, 1, 2, 3, v // 16, v // 4, v // 2, v - 1):
                    if 0 <= c < abs(v) and c not in cands:
                        cands.append(c)
                for c in cands:
                    if self.execs >= self.max_execs:
                        return
                    t2 = list(toks)
                    t2[ai] = str(c)
                    ops2 = list(self.ops)
                    ops2[oi] = " ".join(t2)
                    if self.fails(self.text(ops=ops2)):
                        self.ops = ops2
                        toks = t2
                        break
