"""Self-tests of the simulator: determinism on a large sample, sensitivity (mutants) and silence (benign refactors)."""
import json
import os
import re
import shutil
import subprocess
import sys
import time

from . import build, checks, runner

VERIF = build.VERIF


def _digests(exe, engine, base, n, tier, nworkers, flavour, cache, chunk=None):
    b = runner.Batch(exe, engine, base, n, tier, nworkers, flavour, cache, chunk=chunk)
    recs = b.run()
    return {r.index: (r.seed, r.verdict, r.vclass, r.digest, r.sh) for r in recs}, b.infra_errors


def determinism(argv):
    """Every seed twice, in separate worker processes, at different worker counts: verdict, class, result digest and
    schedule hash must be identical.  A difference is an infrastructure error (exit 2)."""
    n = 2000
    engines = None
    i = 0
    while i < len(argv):
        if argv[i] == "--runs":
            n = int(argv[i + 1])
            i += 2
        elif argv[i] == "--engines":
            engines = argv[i + 1].split(",")
            i += 2
        else:
            i += 1
    root = build.build(("asan", "tsan"))
    plan = [("C05", "asan", 4, None), ("C06", "asan", 4, None), ("C09", "asan", 4, None), ("C09", "asan", 1, None), ("C09", "tsan", 4, None), ("C09F", "asan", 4, 1),
            ("C10", "asan", 1, None), ("C10", "asan", 4, None), ("C12", "asan", 4, None), ("C14", "asan", 4, None), ("C18", "asan", 4, None), ("C19", "asan", 4, None),
            ("C19", "tsan", 4, None), ("C20", "asan", 4, None)]
    bad = 0
    total = 0
    for engine, flavour, cache, chunk in plan:
        if engines and engine not in engines:
            continue
        exe = build.worker_path(flavour, cache, root)
        cnt = min(n, 150) if chunk == 1 else (n // 4 if flavour == "tsan" else n)
        t0 = time.time()
        ref = None
        for nw, ck in ((16, chunk), (4, chunk or 7), (1, chunk or 53)):
            if nw == 1 and cnt > 400:
                sub = 400   # a single worker only re-runs a prefix
            else:
                sub = cnt
            d, infra = _digests(exe, engine, 424242, sub, "quick", nw, flavour, cache, ck)
            if infra:
                print("INFRA-ERROR " + infra[0])
                return 2
            if ref is None:
                ref = d
                continue
            for idx, v in d.items():
                total += 1
                if ref.get(idx) != v:
                    bad += 1
                    if bad <= 10:
                        print("NONDETERMINISM engine=%s flavour=%s cache=%d index=%d: %s vs %s" % (engine, flavour, cache, idx, ref.get(idx), v))
        print("[determinism] %s/%s/c%d: %d seeds x 3 worker layouts (16/4/1 workers, different chunking) %.1fs" % (engine, flavour, cache, cnt, time.time() - t0), flush=True)
    print("[determinism] compared %d repeated runs, %d differences" % (total, bad))
    out = {"compared": total, "differences": bad, "seeds_per_engine": n, "layouts": "16 workers / 4 workers chunk 7 / 1 worker chunk 53, separate processes"}
    json.dump(out, open(os.path.join(VERIF, "selftest_determinism.json"), "w"), indent=1)
    return 2 if bad else 0


def _run_suite(scratch):
    """Builds the mutated tree with CMake and runs the repository's own test suite (offline)."""
    b = os.path.join(scratch, "_tb")
    cfg = ["cmake", "-G", "Ninja", "-S", scratch, "-B", b, "-DCMAKE_BUILD_TYPE=RelWithDebInfo", "-DDSPLIB_BUILD_TESTS=ON", "-DFETCHCONTENT_SOURCE_DIR_GOOGLETEST=/usr/src/googletest",
           "-DFETCHCONTENT_FULLY_DISCONNECTED=ON", "-DCMAKE_CXX_FLAGS=-Wno-error"]
    r = subprocess.run(cfg, stdout=subprocess.PIPE, stderr=subprocess.STDOUT, text=True)
    if r.returncode != 0:
        return "configure-failed"
    r = subprocess.run(["cmake", "--build", b, "-j16"], stdout=subprocess.PIPE, stderr=subprocess.STDOUT, text=True)
    if r.returncode != 0:
        return "build-failed"
    r = subprocess.run(["./dsplib-test"], cwd=os.path.join(b, "tests"), stdout=subprocess.PIPE, stderr=subprocess.STDOUT, text=True)
    m = re.search(r"\[  PASSED  \] (\d+) tests", r.stdout)
    f = re.search(r"\[  FAILED  \] (\d+) tests", r.stdout)
    return "passed=%s failed=%s" % (m.group(1) if m else "0", f.group(1) if f else "0")


def run_patch(patch, prop, name, with_tests=False, tier="quick", keep=False, extra_env=None):
    """Applies `patch` to a scratch copy of /repo, runs the check of `prop` against it. Returns dict."""
    scratch = "/tmp/vm-" + re.sub(r"[^A-Za-z0-9_.-]", "_", name)
    shutil.rmtree(scratch, ignore_errors=True)
    subprocess.run(["rsync", "-a", "--exclude", "_build", "--exclude", ".git", "/repo/", scratch + "/"], check=True)
    r = subprocess.run(["patch", "-p1", "--binary", "-s", "-i", patch], cwd=scratch, stdout=subprocess.PIPE, stderr=subprocess.STDOUT, text=True)
    res = {"name": name, "property": prop}
    if r.returncode != 0:
        res["observed"] = "patch-failed"
        res["log"] = r.stdout[-500:]
        shutil.rmtree(scratch, ignore_errors=True)
        return res
    if with_tests:
        res["suite"] = _run_suite(scratch)
    env = dict(os.environ)
    env.update({"VERIF_REPO": scratch, "VERIF_BUILD_ROOT": os.path.join(scratch, "_vb"), "VERIF_OUT": os.path.join(scratch, "_out")})
    if extra_env:
        env.update(extra_env)
    t0 = time.time()
    r = subprocess.run([os.path.join(VERIF, "bin", "verif"), "check", prop, "--tier", tier], env=env, stdout=subprocess.PIPE, stderr=subprocess.STDOUT, text=True)
    res["wall_s"] = round(time.time() - t0, 1)
    res["exit"] = r.returncode
    res["observed"] = {0: "silent", 1: "caught", 2: "infra-error"}.get(r.returncode, "exit%d" % r.returncode)
    res["classes"] = sorted(set(re.findall(r"^  class=(\S+)", r.stdout, re.M)))
    res["notes"] = re.findall(r"^NOTE: .*", r.stdout, re.M)[:3]
    if r.returncode == 2:
        res["log"] = r.stdout[-1500:]
    if not keep:
        shutil.rmtree(scratch, ignore_errors=True)
    return res


def mutants(argv):
    with_tests = "--with-tests" in argv
    only = [a for a in argv if not a.startswith("--")]
    cat = json.load(open(os.path.join(VERIF, "mutants", "catalogue.json")))
    results = []
    ok = True
    for ent in cat:
        if only and not any(o in ent["name"] for o in only):
            continue
        res = run_patch(os.path.join(VERIF, "mutants", ent["name"] + ".patch"), ent["property"], ent["name"], with_tests)
        res["kind"] = ent["kind"]
        res["expected"] = "caught" if ent["kind"] == "break" else "silent"
        res["as_expected"] = (res["observed"] == res["expected"])
        ok = ok and res["as_expected"]
        results.append(res)
        if res.get("log"):
            print(res["log"])
        print("%-44s %s %-7s expected=%-6s observed=%-11s %5.1fs %s %s" % (ent["name"], ent["property"], ent["kind"], res["expected"], res["observed"], res.get("wall_s", 0),
                                                                       res.get("suite", ""), ",".join(res.get("classes", []))[:150]), flush=True)
    if not only:
        json.dump(results, open(os.path.join(VERIF, "mutants", "results.json"), "w"), indent=1)
    return 0 if ok else 1


def main(argv):
    if not argv:
        print("selftest determinism [--runs N] [--engines a,b] | mutants [--with-tests] [name-filter...]")
        return 2
    if argv[0] == "determinism":
        return determinism(argv[1:])
    if argv[0] == "mutants":
        return mutants(argv[1:])
    return 2
