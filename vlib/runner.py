"""Runs batches of simulated runs in long-lived worker processes and parses their protocol."""
import os
import queue
import re
import subprocess
import threading
import time

PROTO = ("BEGIN ", "END ", "DETAIL ", "SAMPLE ", "SCHED ", "BATCH-DONE", "BUDGET-EXCEEDED", "TERMINATE", "SIM-STUCK", "SIM-DEADLOCK", "WALL-TIMEOUT", "ERROR ")

_ENV = dict(os.environ)
_ENV.setdefault("ASAN_SYMBOLIZER_PATH", "/usr/bin/llvm-symbolizer-14")
_ENV.setdefault("TSAN_SYMBOLIZER_PATH", "/usr/bin/llvm-symbolizer-14")
_ENV.setdefault("UBSAN_SYMBOLIZER_PATH", "/usr/bin/llvm-symbolizer-14")


class RunRec:
    __slots__ = ("seed", "index", "verdict", "vclass", "digest", "sh", "nthr", "ctr", "sigs", "states", "trans", "detail", "sample", "sched", "noise",
                 "flavour", "cache", "crashed", "exe", "engine", "chunk_i0", "base")

    def __init__(self, seed, index):
        self.seed = seed
        self.index = index
        self.verdict = None
        self.vclass = "-"
        self.digest = ""
        self.sh = ""
        self.nthr = 1
        self.ctr = {}
        self.sigs = []
        self.states = []
        self.trans = []
        self.detail = ""
        self.sample = ""
        self.sched = ""
        self.noise = []
        self.flavour = ""
        self.cache = 4
        self.crashed = False
        self.exe = None
        self.engine = None
        self.chunk_i0 = None
        self.base = None


def _strip_fn(fn):
    fn = re.sub(r"\(.*$", "", fn)          # arguments
    fn = re.sub(r"<[^<>]*>", "", fn)        # one level of template arguments
    fn = re.sub(r"<[^<>]*>", "", fn)
    return fn.strip()


_FRAME = re.compile(r"^\s*#\d+\s+(?:0x[0-9a-f]+\s+in\s+)?(.+?)\s+(/\S+?):(\d+)")


def first_repo_frame(lines):
    """Innermost stack frame that belongs to dsplib (function name, file basename)."""
    for ln in lines:
        m = _FRAME.match(ln)
        if m and ("/repo/" in m.group(2) or "dsplib::" in m.group(1)):
            if "/verif/sim/" in m.group(2):
                continue
            return _strip_fn(m.group(1)), os.path.basename(m.group(2))
    return None, None


def classify_noise(lines, exit_code=None, proto_abort=None):
    """Violation class of a sanitizer report / abort (stable across line-number changes)."""
    text = "\n".join(lines)
    m = re.search(r"ERROR: AddressSanitizer: ([^\n]*)", text)
    if m:
        words = re.split(r"\s+", re.split(r" on |:| \(", m.group(1))[0].strip())[:4]
        kind = "-".join(w for w in words if not w.startswith("0x"))
        fn, fil = first_repo_frame(lines)
        return "asan:%s@%s" % (kind, (fn + "(" + fil + ")") if fn else "?")
    m = re.search(r"(\S+?):(\d+):(\d+): runtime error: (.*)", text)
    if m:
        msg = re.sub(r"0x[0-9a-f]+", "ADDR", m.group(4))
        msg = re.sub(r"-?\d+(\.\d+)?(e[+-]?\d+)?", "N", msg)
        msg = re.sub(r"\s+", "_", msg.strip())[:80]
        return "ubsan:%s@%s" % (msg, os.path.basename(m.group(1)))
    m = re.search(r"WARNING: ThreadSanitizer: ([^(\n]+)", text)
    if m:
        kind = m.group(1).strip().replace(" ", "-")
        fn, fil = first_repo_frame(lines)
        return "tsan:%s@%s" % (kind, (fn + "(" + fil + ")") if fn else "?")
    if proto_abort:
        return proto_abort
    if exit_code is not None:
        return "abort:exit%d" % exit_code
    return "abort:unknown"


def parse_end(rec, line):
    parts = line.split()
    rec.verdict = parts[2]
    for kv in parts[3:]:
        k, _, v = kv.partition("=")
        if k == "class":
            rec.vclass = v
        elif k == "digest":
            rec.digest = v
        elif k == "sh":
            rec.sh = v
        elif k == "nthr":
            rec.nthr = int(v)
        elif k == "ctr" and v != "-":
            for item in v.split(","):
                a, _, b = item.rpartition(":")
                rec.ctr[a] = int(b)
        elif k == "sigs" and v != "-":
            rec.sigs = v.split(",")
        elif k == "states" and v != "-":
            rec.states = v.split(",")
        elif k == "trans" and v != "-":
            rec.trans = v.split(",")


def run_worker(cmd, on_rec, stdin_text=None, timeout=None):
    """Runs one worker command; calls on_rec(RunRec) per finished run.
    Returns (exit_code, last_index_begun, leftover_rec_or_None, tail_lines)."""
    p = subprocess.Popen(cmd, stdin=subprocess.PIPE if stdin_text is not None else subprocess.DEVNULL, stdout=subprocess.PIPE, stderr=subprocess.STDOUT,
                         env=_ENV, text=True, errors="replace")
    if stdin_text is not None:
        try:
            p.stdin.write(stdin_text)
            p.stdin.close()
        except BrokenPipeError:
            pass
    timer = None
    timed_out = [False]
    if timeout:
        def _kill():
            timed_out[0] = True
            p.kill()
        timer = threading.Timer(timeout, _kill)
        timer.start()
    cur = None
    done = False
    proto_abort = None
    tail = []
    last_index = None
    for raw in p.stdout:
        line = raw.rstrip("\n")
        if line.startswith("BEGIN "):
            t = line.split()
            cur = RunRec(int(t[1]), int(t[2]))
            last_index = cur.index
        elif line.startswith("END ") and cur is not None:
            parse_end(cur, line)
            on_rec(cur)
            cur = None
        elif line.startswith("DETAIL ") and cur is not None:
            cur.detail = line.split(" ", 2)[2] if line.count(" ") >= 2 else ""
        elif line.startswith("SAMPLE ") and cur is not None:
            cur.sample = line.split(" ", 2)[2] if line.count(" ") >= 2 else ""
        elif line.startswith("SCHED ") and cur is not None:
            cur.sched = line.split(" ", 2)[2] if line.count(" ") >= 2 else ""
        elif line.startswith("BATCH-DONE"):
            done = True
        elif line.startswith(("BUDGET-EXCEEDED", "TERMINATE", "SIM-STUCK", "SIM-DEADLOCK", "WALL-TIMEOUT")):
            proto_abort = line
            if cur is not None:
                cur.noise.append(line)
        elif cur is not None:
            if len(cur.noise) < 400:
                cur.noise.append(line)
        else:
            tail.append(line)
            tail = tail[-50:]
    rc = p.wait()
    if timer:
        timer.cancel()
    if timed_out[0]:
        proto_abort = proto_abort or "WALL-TIMEOUT"
    leftover = None
    if cur is not None:
        # the run in flight died: sanitizer abort, signal, budget, terminate
        cur.crashed = True
        cur.verdict = "VIOL"
        pa = None
        forced = None
        if proto_abort:
            label = re.sub(r"[^A-Za-z0-9_.:-]+", "_", re.sub(r"\d+", "N", proto_abort.split("op=", 1)[-1].split(" |")[0].strip()))[:60] if "op=" in proto_abort else ""
            if proto_abort.startswith("BUDGET-EXCEEDED"):
                forced = "hang:edge-budget@" + label
            elif proto_abort.startswith("TERMINATE"):
                forced = "terminate@" + label
            elif proto_abort.startswith("SIM-DEADLOCK"):
                forced = "deadlock"
            elif proto_abort.startswith("WALL-TIMEOUT run"):
                forced = "hang:wall-clock"
            elif proto_abort.startswith("SIM-STUCK watchdog"):
                # the thread holding the token reached no schedule point and the simulated run did not end within the
                # scheduler's wall-clock limit: blocked in a primitive the scheduler does not intercept (e.g. a condition
                # variable that is never signalled) - a call that does not return
                forced = "hang:no-progress"
            elif proto_abort.startswith("SIM-STUCK") or proto_abort == "WALL-TIMEOUT":
                forced = "infra:stuck"
        if forced:
            cur.vclass = forced
            cur.detail = (proto_abort or "") + " | " + " / ".join(x.strip() for x in cur.noise[:6])
            leftover = cur
            return rc, last_index, leftover, tail, done
        cur.vclass = classify_noise(cur.noise, rc, pa)
        cur.detail = (proto_abort or "") + " | " + " / ".join(x.strip() for x in cur.noise[:6])
        leftover = cur
    return rc, last_index, leftover, tail, done


class Batch:
    """Dynamic work queue of index ranges over a fixed number of runs, spread over worker processes."""

    def __init__(self, exe, engine, base_seed, nruns, tier, nworkers, flavour, cache, chunk=None, extra_env=None, per_run_timeout=600):
        self.exe = exe
        self.engine = engine
        self.base = base_seed
        self.nruns = nruns
        self.tier = tier
        self.nworkers = max(1, min(nworkers, nruns))
        self.flavour = flavour
        self.cache = cache
        self.chunk = chunk or max(1, min(250, nruns // (self.nworkers * 6) or 1))
        self.recs = []
        self.lock = threading.Lock()
        self.infra_errors = []
        self.per_run_timeout = per_run_timeout
        self.hangs = 0

    def _on_rec(self, rec, i0=None):
        rec.flavour = self.flavour
        rec.cache = self.cache
        rec.chunk_i0 = i0
        rec.base = self.base
        with self.lock:
            self.recs.append(rec)
            if rec.vclass in ("hang:no-progress", "hang:wall-clock"):
                self.hangs += 1   # every such run costs minutes of wall clock: two are enough to report

    def _work(self, q):
        while True:
            if self.hangs >= 2:
                return   # the batch is cut short; the runs recorded so far are reported
            try:
                i0, cnt = q.get_nowait()
            except queue.Empty:
                return
            while cnt > 0 and self.hangs < 2:
                cmd = [self.exe, "batch", self.engine, str(self.base), str(i0), str(cnt), self.tier]
                first = i0
                rc, last, leftover, tail, done = run_worker(cmd, lambda r: self._on_rec(r, first), timeout=self.per_run_timeout * 4 + 60)
                if leftover is not None:
                    self._on_rec(leftover, first)
                    nxt = leftover.index + 1
                    cnt -= (nxt - i0)
                    i0 = nxt
                    continue
                if not done:
                    with self.lock:
                        self.infra_errors.append("worker ended without BATCH-DONE rc=%s cmd=%s tail=%s" % (rc, " ".join(cmd), " | ".join(tail[-5:])))
                break

    def run(self):
        q = queue.Queue()
        i = 0
        while i < self.nruns:
            c = min(self.chunk, self.nruns - i)
            q.put((i, c))
            i += c
        ths = [threading.Thread(target=self._work, args=(q,)) for _ in range(self.nworkers)]
        t0 = time.time()
        for t in ths:
            t.start()
        for t in ths:
            t.join()
        self.wall = time.time() - t0
        return self.recs


def exec_plan(exe, plan_text, twice=False, timeout=420):
    """Executes one plan in a fresh process. Returns list of RunRec (1 or 2)."""
    recs = []
    cmd = [exe, "exec", "-"] + (["twice"] if twice else [])
    rc, last, leftover, tail, done = run_worker(cmd, recs.append, stdin_text=plan_text, timeout=timeout)
    if leftover is not None:
        recs.append(leftover)
    return recs, rc, tail


def gen_plan(exe, engine, seed, tier):
    r = subprocess.run([exe, "gen", engine, str(seed), tier], stdout=subprocess.PIPE, stderr=subprocess.STDOUT, text=True, env=_ENV)
    return r.stdout


def run_history(exe, engine, base, i0, idx, tier, timeout=900):
    """Re-executes runs i0..idx of a batch in ONE fresh process and returns the record of run idx (or None)."""
    recs = []
    cmd = [exe, "batch", engine, str(base), str(i0), str(idx - i0 + 1), tier]
    rc, last, leftover, tail, done = run_worker(cmd, recs.append, timeout=timeout)
    if leftover is not None:
        recs.append(leftover)
    for r in recs:
        if r.index == idx:
            return r
    return None
