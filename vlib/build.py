"""Builds the simulator from /repo's CURRENT working tree (content-hashed, never /repo/_build)."""
import hashlib
import os
import shutil
import subprocess
import sys
from concurrent.futures import ThreadPoolExecutor

VERIF = os.path.dirname(os.path.dirname(os.path.abspath(__file__)))
REPO = os.environ.get("VERIF_REPO", "/repo")
SIM = os.path.join(VERIF, "sim")
BUILD_ROOT = os.environ.get("VERIF_BUILD_ROOT", os.path.join(VERIF, "build"))
CXX = "clang++"
GUARD = "DSPLIB_VERIF"
CACHE_SIZES = (1, 2, 4)

COMMON = ["-std=c++17", "-DNDEBUG", "-D" + GUARD, "-fno-omit-frame-pointer", "-gline-tables-only", "-Wno-deprecated-declarations"]
COV = ["-fsanitize-coverage=trace-pc-guard"]
FLAVOURS = {
    # shipped optimisation level + NDEBUG: assert() is gone and DSPLIB_ASSUME is a live __builtin_assume
    "asan": {"cflags": ["-O2", "-fsanitize=address,undefined", "-fno-sanitize-recover=undefined"], "lflags": ["-fsanitize=address,undefined"]},
    "tsan": {"cflags": ["-O1", "-fsanitize=thread"], "lflags": ["-fsanitize=thread"]},
}
WRAPS = ["__cxa_guard_acquire", "__cxa_guard_release", "__cxa_guard_abort", "pthread_mutex_lock", "pthread_mutex_unlock", "fopen", "fseek", "fread", "feof", "fclose"]


def _files(root, exts):
    out = []
    for d, _, fs in os.walk(root):
        for f in sorted(fs):
            if f.endswith(exts):
                out.append(os.path.join(d, f))
    return sorted(out)


def tree_hash():
    h = hashlib.sha256()
    for root in (os.path.join(REPO, "include"), os.path.join(REPO, "lib"), SIM):
        for p in _files(root, (".h", ".cpp")):
            h.update(os.path.relpath(p, "/").encode())
            with open(p, "rb") as f:
                h.update(hashlib.sha256(f.read()).digest())
    with open(os.path.join(REPO, "cmake", "defs.h.in"), "rb") as f:
        h.update(f.read())
    h.update(repr((COMMON, COV, FLAVOURS, WRAPS, CACHE_SIZES)).encode())
    return h.hexdigest()[:16]


def _gen_defs(gen_dir):
    os.makedirs(os.path.join(gen_dir, "dsplib"), exist_ok=True)
    src = open(os.path.join(REPO, "cmake", "defs.h.in")).read()
    ver = "0.0.0"
    for line in open(os.path.join(REPO, "CMakeLists.txt")):
        if line.startswith("project(") and "VERSION" in line:
            ver = line.split("VERSION")[1].strip(" )\n")
    major, minor, patch = (ver.split(".") + ["0", "0", "0"])[:3]
    src = src.replace("#cmakedefine DSPLIB_NO_EXCEPTIONS", "/* #undef DSPLIB_NO_EXCEPTIONS */")
    src = src.replace("#cmakedefine DSPLIB_USE_FLOAT32", "/* #undef DSPLIB_USE_FLOAT32 */")
    src = src.replace("@CMAKE_PROJECT_VERSION@", ver).replace("@CMAKE_PROJECT_VERSION_MAJOR@", major)
    src = src.replace("@CMAKE_PROJECT_VERSION_MINOR@", minor).replace("@CMAKE_PROJECT_VERSION_PATCH@", patch)
    with open(os.path.join(gen_dir, "dsplib", "defs.h"), "w") as f:
        f.write(src)


def _compile(job):
    src, obj, flags = job
    cmd = [CXX] + flags + ["-c", src, "-o", obj]
    r = subprocess.run(cmd, stdout=subprocess.PIPE, stderr=subprocess.STDOUT, text=True)
    return (src, r.returncode, r.stdout, " ".join(cmd))


def worker_path(flavour, cache=4, root=None):
    root = root or os.path.join(BUILD_ROOT, tree_hash())
    return os.path.join(root, flavour, "worker-c%d" % cache)


def build(flavours=("asan", "tsan"), quiet=False):
    """Returns the build root. Raises SystemExit(2) on a build failure (infrastructure error)."""
    th = tree_hash()
    root = os.path.join(BUILD_ROOT, th)
    os.makedirs(BUILD_ROOT, exist_ok=True)
    # prune stale hashes
    for d in os.listdir(BUILD_ROOT):
        if d != th:
            shutil.rmtree(os.path.join(BUILD_ROOT, d), ignore_errors=True)
    gen_dir = os.path.join(root, "gen")
    todo = [fl for fl in flavours if not os.path.exists(os.path.join(root, fl, ".done"))]
    if not todo:
        return root
    _gen_defs(gen_dir)
    inc = ["-I" + os.path.join(REPO, "include"), "-I" + os.path.join(REPO, "lib"), "-I" + gen_dir, "-I" + SIM]
    lib_src = _files(os.path.join(REPO, "lib"), (".cpp",))
    sim_src = _files(SIM, (".cpp",))
    jobs = []
    links = []
    for fl in todo:
        out = os.path.join(root, fl)
        os.makedirs(out, exist_ok=True)
        fcfg = FLAVOURS[fl]
        objs = []
        fft_objs = {}
        for s in lib_src:
            rel = os.path.relpath(s, os.path.join(REPO, "lib")).replace("/", "_")
            if rel == "fft_fft.cpp":
                for c in CACHE_SIZES:
                    o = os.path.join(out, "lib_%s.c%d.o" % (rel, c))
                    jobs.append((s, o, COMMON + fcfg["cflags"] + COV + inc + ["-DDSPLIB_FFT_CACHE_SIZE=%d" % c]))
                    fft_objs[c] = o
                continue
            o = os.path.join(out, "lib_%s.o" % rel)
            jobs.append((s, o, COMMON + fcfg["cflags"] + COV + inc + ["-DDSPLIB_FFT_CACHE_SIZE=4"]))
            objs.append(o)
        for s in sim_src:
            base = os.path.basename(s)
            o = os.path.join(out, "sim_%s.o" % base)
            if base == "simsched.cpp":
                flags = ["-std=c++17", "-O2", "-g", "-fno-omit-frame-pointer"] + inc   # NO sanitizers: see simsched.h
            elif base in ("main.cpp", "simio.cpp"):
                flags = COMMON + fcfg["cflags"] + inc
            else:
                flags = COMMON + fcfg["cflags"] + COV + inc
            jobs.append((s, o, flags))
            objs.append(o)
        for c in CACHE_SIZES:
            links.append((fl, c, objs + [fft_objs[c]], os.path.join(out, "worker-c%d" % c)))
    if not quiet:
        print("[build] %s: compiling %d translation units for %s" % (th, len(jobs), ",".join(todo)), flush=True)
    with ThreadPoolExecutor(max_workers=os.cpu_count() or 4) as ex:
        results = list(ex.map(_compile, jobs))
    bad = [r for r in results if r[1] != 0]
    if bad:
        for src, rc, outp, cmd in bad[:5]:
            sys.stdout.write("[build] FAILED %s\n%s\n%s\n" % (src, cmd, outp[-4000:]))
        print("INFRA-ERROR build failed", flush=True)
        raise SystemExit(2)

    def _link(job):
        fl, c, objs, exe = job
        wrap = ["-Wl,--wrap=" + w for w in WRAPS]
        cmd = [CXX] + FLAVOURS[fl]["lflags"] + objs + wrap + ["-lpthread", "-o", exe]
        r = subprocess.run(cmd, stdout=subprocess.PIPE, stderr=subprocess.STDOUT, text=True)
        return (exe, r.returncode, r.stdout)

    with ThreadPoolExecutor(max_workers=8) as ex:
        lres = list(ex.map(_link, links))
    bad = [r for r in lres if r[1] != 0]
    if bad:
        for exe, rc, outp in bad[:3]:
            sys.stdout.write("[build] LINK FAILED %s\n%s\n" % (exe, outp[-4000:]))
        print("INFRA-ERROR link failed", flush=True)
        raise SystemExit(2)
    for fl in todo:
        open(os.path.join(root, fl, ".done"), "w").write("ok\n")
    return root
