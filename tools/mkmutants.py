#!/usr/bin/env python3
"""Generates /verif/mutants/*.patch (sensitivity mutants and benign refactors) from the CURRENT /repo tree.
Each entry: name, property expected to react, kind (break|benign), list of (file, old, new) edits (LF text;
CRLF files are handled).  Run again after /repo changes; patches are plain `git apply` diffs."""
import difflib
import json
import os
import sys

REPO = "/repo"
OUT = os.path.join(os.path.dirname(os.path.dirname(os.path.abspath(__file__))), "mutants")

M = []


def m(name, prop, kind, edits, note):
    M.append({"name": name, "property": prop, "kind": kind, "edits": edits, "note": note})


# ---------------- breaking mutants -----------------------------------------------------------------
m("M01_random_engine_static", "C19", "break", [("lib/random.cpp", "thread_local std::mt19937 g_engine{0};", "static std::mt19937 g_engine{0};")],
  "random engine shared by all threads")
m("M01b_random_engine_static_c09", "C09", "break", [("lib/random.cpp", "thread_local std::mt19937 g_engine{0};", "static std::mt19937 g_engine{0};")],
  "same change seen by C09 (race + per-thread results)")
m("M02_lru_evicts_second_most_recent", "C10", "break", [("lib/lru-cache.h", """            auto last = items_list_.end();
            last--;
            items_map_.erase(last->first);
            items_list_.pop_back();""", """            auto victim = std::next(items_list_.begin());
            items_map_.erase(victim->first);
            items_list_.erase(victim);""")], "evicts the previously most recent key instead of the least recent")
m("M03_lru_get_no_refresh", "C10", "break", [("lib/lru-cache.h", "        items_list_.splice(items_list_.begin(), items_list_, it->second);\n", "")],
  "get() does not refresh recency")
m("M04_lru_capacity_off_by_one", "C10", "break", [("lib/lru-cache.h", "if (items_map_.size() > max_size_) {", "if (items_map_.size() >= max_size_) {")],
  "holds one plan fewer than configured (none at capacity 1)")
m("M05_plantree_raw_solver", "C10", "break", [("lib/fft/fact-fft.cpp", """    [[nodiscard]] std::shared_ptr<BaseFftPlanC> solver() const noexcept {
        assert(_solver != nullptr);
        return _solver;
    }""", """    [[nodiscard]] BaseFftPlanC* solver() const noexcept {
        assert(_solver != nullptr);
        return _solver;
    }"""), ("lib/fft/fact-fft.cpp", "            _solver = create_fft_plan(n);\n            return;\n        }\n\n        const auto fac", "            _solver = create_fft_plan(n).get();\n            return;\n        }\n\n        const auto fac"),
    ("lib/fft/fact-fft.cpp", "            _solver = create_fft_plan(n);\n            return;\n        }\n\n        auto P", "            _solver = create_fft_plan(n).get();\n            return;\n        }\n\n        auto P"),
    ("lib/fft/fact-fft.cpp", "    std::shared_ptr<BaseFftPlanC> _solver;\n};", "    BaseFftPlanC* _solver{nullptr};\n};")],
  "leaf plans referenced by raw pointer: dangling once the cache evicts them")
m("M06_fir_skip_history_for_short_frames", "C06", "break", [("include/dsplib/fir.h", "        _d = x.slice((nx - nd), nx);", "        if (s.size() >= nd) {\n            _d = s.slice(s.size() - nd, s.size());\n        }")],
  "history only refreshed when the frame is at least as long as the memory")
m("M07_decimator_history_from_input", "C06", "break", [("lib/resample/fir-decimator.cpp", "    std::copy_n(x.data() + nx, nd, d_.data());", "    if (nx >= nd) {\n        std::copy_n(in.data() + nx - nd, nd, d_.data());\n    }")],
  "history taken from the input frame only; stale when the frame is shorter than the history")
m("M08_delay_short_frame", "C06", "break", [("include/dsplib/delay.h", "        _buffer.slice(0, nd) = tmp.slice(tmp.size() - nd, tmp.size());", "        if (x.size() >= nd) {\n            _buffer.slice(0, nd) = x.slice(x.size() - nd, x.size());\n        }")],
  "delay line not shifted by frames shorter than the delay")
m("M09_median_ring_restart", "C06", "break", [("lib/medfilt.cpp", "    auto y = zeros(x.size());\n    for (int i = 0; i < x.size(); ++i) {\n        _i = (_i + 1) % _n;", "    auto y = zeros(x.size());\n    _i = _n - 1;\n    for (int i = 0; i < x.size(); ++i) {\n        _i = (_i + 1) % _n;")],
  "ring index restarts at every call")
m("M10_tuner_wrap_one_late", "C14", "break", [("include/dsplib/tuner.h", "            if (_phase >= _fs) {", "            if (_phase > _fs) {")], "counter period fs+1")
m("M11_lms_locked_skips_error", "C12", "break", [("include/dsplib/lms.h", """            e[k] = d[k] - y[k];

            if (_locked) {
                continue;
            }
""", """            if (_locked) {
                continue;
            }

            e[k] = d[k] - y[k];
""")], "error not computed while locked")
m("M12_rls_aposteriori_output", "C12", "break", [("include/dsplib/rls.h", """        for (int i = 0; i < _n; i++) {
            _w[i] += conj(g[i]) * e[idx];
        }
""", """        for (int i = 0; i < _n; i++) {
            _w[i] += conj(g[i]) * e[idx];
        }
        y[idx] = dot(_w, _u);
""")], "RLS returns the a-posteriori output")
m("M13_limiter_attack_release_swapped", "C20", "break", [("include/dsplib/audio/limiter.h", "            if (gc <= gs_) {", "            if (gc >= gs_) {")], "attack and release branches swapped")
m("M14_agc_clamp_after_output", "C20", "break", [("lib/agc.cpp", """        if (agc.gain > agc.max_gain) {
            agc.gain = agc.max_gain;
        }

        gain[i] = std::exp(agc.gain);
        out[i] = x[i] * gain[i];
""", """        gain[i] = std::exp(agc.gain);
        out[i] = x[i] * gain[i];

        if (agc.gain > agc.max_gain) {
            agc.gain = agc.max_gain;
        }
""")], "max_gain clamp applied after the sample was produced")
m("M15_detector_offset_plus_one", "C18", "break", [("lib/detector.cpp", "                res.offset = i;", "                res.offset = i + 1;")], "offset is end+1 as the header comment says")
m("M16_detector_push_after_check", "C18", "break", [("lib/detector.cpp", """            _delay.push(sig[i]);
            if ((corr[i] > _threshold) && _is_valid(corr[i])) {""", """            if (i > 0) {
                _delay.push(sig[i - 1]);
            }
            if ((corr[i] > _threshold) && _is_valid(corr[i])) {""")], "ring buffer lags one sample: returned preamble misaligned")
m("M17_randn_static_distribution", "C19", "break", [("lib/random.cpp", """arr_real randn(int n) {
    arr_real r(n);
    std::normal_distribution<real_t> dist{0, 1};""", """arr_real randn(int n) {
    arr_real r(n);
    thread_local std::normal_distribution<real_t> dist{0, 1};""")], "distribution object hoisted: its cached second value survives rng(seed)")
m("M18_realfft_no_size_check", "C05", "break", [("lib/fft/real-fft.h", '        DSPLIB_ASSERT(x.size() == n_, "Input size must be equal FFT size");\n', "")], "size check deleted from RealFftPlan::solve")
m("M19_lms_no_size_check", "C05", "break", [("include/dsplib/lms.h", """        if (x.size() != d.size()) {
            DSPLIB_THROW("vector size error: len(x) != len(d)");
        }

        int nx = x.size();
        base_array<T> y(nx);""", """        int nx = x.size();
        base_array<T> y(nx);""")], "x/d length check deleted from LmsFilter::process")
m("M20_plan_cache_static", "C09", "break", [("lib/fft/fft.cpp", "    thread_local LRUCache<int, std::shared_ptr<BaseFftPlanC>> cache{FFT_CACHE_SIZE};", "    static LRUCache<int, std::shared_ptr<BaseFftPlanC>> cache{FFT_CACHE_SIZE};")],
  "complex plan cache shared by all threads without a lock")
m("M21_kaiser_unguarded_lazy_table", "C09", "break", [("lib/window.cpp", "    static const auto factorials = _init_factorials<num_steps>();", """    static std::array<real_t, num_steps> factorials;
    static bool ready = false;
    if (!ready) {
        factorials = _init_factorials<num_steps>();
        ready = true;
    }""")], "hand-rolled lazy init of the factorial table (racy first use)")
m("M22_compressor_release_for_attack", "C20", "break", [("include/dsplib/audio/compressor.h", "                gs_ = (wA_ * gs_) + (1 - wA_) * gc;", "                gs_ = (wR_ * gs_) + (1 - wR_) * gc;")], "attack uses the release coefficient")
m("M23_fftfilter_overlap_dropped_on_exact_block", "C06", "break", [("lib/fir.cpp", """            for (int i = 0; i < (_m - 1); i++) {
                pr[i] += _olap[i];
                _olap[i] = ry[i + _n];
            }
""", """            for (int i = 0; i < (_m - 1); i++) {
                pr[i] += _olap[i];
                _olap[i] = (x.size() == 1) ? cmplx_t{} : ry[i + _n];
            }
""")], "overlap tail lost when a block completes inside a single-sample call")

# ---------------- benign refactors: the property still holds, the checks must stay silent --------
m("B01_scratch_thread_local", "C09", "benign", [("lib/fft/fact-fft.cpp", "    arr_cmplx px(_n);   //tmp matrix for transpose (per call: the plan may be shared between threads)", "    thread_local arr_cmplx px;\n    if (px.size() < _n) {\n        px = arr_cmplx(_n);\n    }")],
  "per-thread scratch instead of per-call scratch")
m("B02_global_cache_behind_mutex", "C09", "benign", [("lib/fft/fft.cpp", "#include <memory>\n\nnamespace dsplib {", "#include <memory>\n#include <mutex>\n\nnamespace dsplib {"),
    ("lib/fft/fft.cpp", "    thread_local LRUCache<int, std::shared_ptr<BaseFftPlanC>> cache{FFT_CACHE_SIZE};", "    static std::recursive_mutex mtx;\n    std::lock_guard<std::recursive_mutex> lock(mtx);\n    static LRUCache<int, std::shared_ptr<BaseFftPlanC>> cache{FFT_CACHE_SIZE};"),
    ("lib/fft/fft.cpp", "    thread_local LRUCache<int, std::shared_ptr<BaseFftPlanR>> cache{FFT_CACHE_SIZE};", "    static std::recursive_mutex mtx;\n    std::lock_guard<std::recursive_mutex> lock(mtx);\n    static LRUCache<int, std::shared_ptr<BaseFftPlanR>> cache{FFT_CACHE_SIZE};")],
  "one process-wide plan cache protected by a recursive mutex")
m("B02b_global_cache_behind_mutex_c10", "C10", "benign", [("lib/fft/fft.cpp", "#include <memory>\n\nnamespace dsplib {", "#include <memory>\n#include <mutex>\n\nnamespace dsplib {"),
    ("lib/fft/fft.cpp", "    thread_local LRUCache<int, std::shared_ptr<BaseFftPlanC>> cache{FFT_CACHE_SIZE};", "    static std::recursive_mutex mtx;\n    std::lock_guard<std::recursive_mutex> lock(mtx);\n    static LRUCache<int, std::shared_ptr<BaseFftPlanC>> cache{FFT_CACHE_SIZE};"),
    ("lib/fft/fft.cpp", "    thread_local LRUCache<int, std::shared_ptr<BaseFftPlanR>> cache{FFT_CACHE_SIZE};", "    static std::recursive_mutex mtx;\n    std::lock_guard<std::recursive_mutex> lock(mtx);\n    static LRUCache<int, std::shared_ptr<BaseFftPlanR>> cache{FFT_CACHE_SIZE};")],
  "same refactor seen by C10")
m("B03_fir_reverse_summation", "C06", "benign", [("lib/fir.cpp", "        for (int k = 0; k < nh; ++k) {\n            r[i] += x[i + k] * conj(h[nh - k - 1]);", "        for (int k = nh - 1; k >= 0; --k) {\n            r[i] += x[i + k] * conj(h[nh - k - 1]);")],
  "different summation order in the direct FIR")
m("B04_ma_no_reaccumulation", "C06", "benign", [("lib/ma-filter.h", "            _accum = dsplib::sum(_buf);\n", "")], "moving average without the periodic re-accumulation")
m("B04b_ma_no_reaccumulation_c20", "C20", "benign", [("lib/ma-filter.h", "            _accum = dsplib::sum(_buf);\n", "")], "same, seen by the AGC clauses of C20")
m("B05_tuner_phase_accumulator", "C14", "benign", [("include/dsplib/tuner.h", "            const real_t phase = (2 * pi * _freq * _phase / _fs) + (2 * pi * _offset);", "            const real_t phase = 2 * pi * _acc;\n            _acc += _freq / _fs;\n            _acc -= std::floor(_acc);"),
    ("include/dsplib/tuner.h", "    real_t _offset{0};", "    real_t _offset{0};\n    real_t _acc{0};")], "phase accumulator in cycles instead of counter arithmetic")
m("B06_lru_touch_on_exists", "C10", "benign", [("lib/fft/fft.cpp", "std::shared_ptr<BaseFftPlanC> create_fft_plan(int n) {", "std::shared_ptr<BaseFftPlanC> create_fft_plan(int n) {\n    //(refactor probe: no behavioural change)")],
  "comment-only change (sanity: a no-op must stay silent)")
m("B07_irfft_caches_nothing_extra", "C10", "benign", [("lib/fft/ifft.cpp", "  , _d{std::make_shared<FftPlan>(n / 2)}", "  , _d{std::make_shared<FftPlan>((n + 0) / 2)}")], "no-op arithmetic refactor in IfftPlanR")


def main():
    os.makedirs(OUT, exist_ok=True)
    cat = []
    for ent in M:
        files = {}
        for (f, old, new) in ent["edits"]:
            p = os.path.join(REPO, f)
            if f not in files:
                files[f] = [open(p, newline="").read()] * 2
            cur = files[f][1]
            crlf = "\r\n" in cur
            o = old.replace("\n", "\r\n") if crlf else old
            nw = new.replace("\n", "\r\n") if crlf else new
            if cur.count(o) != 1:
                print("MUTANT %s: pattern not found exactly once in %s (%d)" % (ent["name"], f, cur.count(o)))
                sys.exit(1)
            files[f][1] = cur.replace(o, nw)
        out = []
        for f, (a, b) in files.items():
            d = difflib.unified_diff(a.splitlines(keepends=True), b.splitlines(keepends=True), "a/" + f, "b/" + f)
            out.append("".join(d))
        with open(os.path.join(OUT, ent["name"] + ".patch"), "w", newline="") as fh:
            fh.write("".join(out))
        cat.append({k: ent[k] for k in ("name", "property", "kind", "note")})
    json.dump(cat, open(os.path.join(OUT, "catalogue.json"), "w"), indent=1)
    print("wrote %d patches" % len(cat))


if __name__ == "__main__":
    main()
