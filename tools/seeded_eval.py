#!/usr/bin/env python3
"""Confirms an independently written property-breaking change and runs the checks against it.
usage: seeded_eval.py <id> <property> <patch.diff> <demo.cpp> [--props C05,C06] [--needs "text"] [--origin "text"]
 1. scratch copy of /repo (outside /repo and /verif), patch applied
 2. the repository's own test suite on the patched copy (must pass 175)
 3. demo against the unpatched library (must exit 0) and against the patched one (must exit non-zero)
 4. bin/verif check <property> (quick) against the patched copy -> caught / silent
 5. writes /verif/seeded/<id>/{patch.diff, demo.cpp, meta.json}; removes the scratch copy"""
import json
import os
import shutil
import subprocess
import sys

sys.path.insert(0, os.path.dirname(os.path.dirname(os.path.abspath(__file__))))
from vlib import selftest  # noqa: E402

VERIF = selftest.VERIF


def build_demo(demo, libdir, incdirs, out):
    cmd = ["g++", "-std=c++17", "-O2"] + ["-I" + d for d in incdirs] + [demo, os.path.join(libdir, "libdsplib.a"), "-lpthread", "-o", out]
    r = subprocess.run(cmd, stdout=subprocess.PIPE, stderr=subprocess.STDOUT, text=True)
    return r.returncode, r.stdout[-800:]


def run_demo(exe, timeout=300):
    try:
        r = subprocess.run([exe], stdout=subprocess.PIPE, stderr=subprocess.STDOUT, text=True, timeout=timeout)
        return r.returncode, r.stdout[-400:]
    except subprocess.TimeoutExpired:
        return 124, "timeout"


def main():
    sid, prop, patch, demo = sys.argv[1:5]
    props = [prop]
    needs = ""
    origin = ""
    tier = "quick"
    a = sys.argv[5:]
    while a:
        if a[0] == "--props":
            props = a[1].split(",")
        elif a[0] == "--needs":
            needs = a[1]
        elif a[0] == "--origin":
            origin = a[1]
        elif a[0] == "--tier":
            tier = a[1]
        a = a[2:]
    dst = os.path.join(VERIF, "seeded", sid)
    os.makedirs(dst, exist_ok=True)
    shutil.copy(patch, os.path.join(dst, "patch.diff"))
    shutil.copy(demo, os.path.join(dst, "demo.cpp"))
    meta = {"id": sid, "breaks_property": prop, "needs_to_manifest": needs, "origin": origin, "what_was_run": []}
    results = {}
    scratch = None
    for i, p in enumerate(props):
        res = selftest.run_patch(os.path.join(dst, "patch.diff"), p, "seed-" + sid, with_tests=(i == 0), tier=tier, keep=True)
        scratch = "/tmp/vm-seed-" + sid
        results[p] = {"observed": res["observed"], "classes": res.get("classes", []), "wall_s": res.get("wall_s"), "notes": res.get("notes", [])}
        if i == 0:
            meta["test_suite_with_patch"] = res.get("suite")
            # demo
            base_lib = "/repo/_build"
            rc, log = build_demo(os.path.join(dst, "demo.cpp"), base_lib, ["/repo/include", "/repo/_build"], "/tmp/demo-%s-base" % sid)
            if rc == 0:
                rc0, out0 = run_demo("/tmp/demo-%s-base" % sid)
            else:
                rc0, out0 = -1, "demo build failed: " + log
            tb = os.path.join(scratch, "_tb")
            rc, log = build_demo(os.path.join(dst, "demo.cpp"), tb, [os.path.join(scratch, "include"), tb], "/tmp/demo-%s-mut" % sid)
            if rc == 0:
                rc1, out1 = run_demo("/tmp/demo-%s-mut" % sid)
            else:
                rc1, out1 = -1, "demo build failed: " + log
            meta["demo_without_patch"] = {"exit": rc0, "tail": out0.strip().splitlines()[-3:]}
            meta["demo_with_patch"] = {"exit": rc1, "tail": out1.strip().splitlines()[-3:]}
            for f in ("/tmp/demo-%s-base" % sid, "/tmp/demo-%s-mut" % sid):
                if os.path.exists(f):
                    os.remove(f)
        print("%s: check %s -> %s %s" % (sid, p, res["observed"], ",".join(res.get("classes", []))[:200]), flush=True)
    if scratch:
        shutil.rmtree(scratch, ignore_errors=True)
    meta["checks"] = results
    meta["confirmed"] = bool(meta.get("test_suite_with_patch", "").startswith("passed=175 failed=0") and meta["demo_without_patch"]["exit"] == 0 and meta["demo_with_patch"]["exit"] not in (0, -1))
    meta["what_was_run"] = ["rsync /repo -> /tmp/vm-seed-%s; patch -p1 < patch.diff" % sid, "cmake + ./dsplib-test on the patched copy", "g++ demo.cpp against /repo/_build/libdsplib.a (unpatched) and the patched build",
                            "VERIF_REPO=<copy> bin/verif check %s --tier %s" % ("/".join(props), tier)]
    json.dump(meta, open(os.path.join(dst, "meta.json"), "w"), indent=1)
    print(json.dumps({k: meta[k] for k in ("id", "confirmed", "test_suite_with_patch", "demo_without_patch", "demo_with_patch", "checks")}, indent=1))


if __name__ == "__main__":
    main()
