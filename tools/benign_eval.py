#!/usr/bin/env python3
"""Runs the checks against an independently written BEHAVIOUR-PRESERVING refactoring: every check must stay silent.
usage: benign_eval.py <id> <patch.diff> <props comma list> [--what "text"] [--origin "text"]
Writes /verif/benign/<id>/{patch.diff, meta.json}."""
import json
import os
import shutil
import sys

sys.path.insert(0, os.path.dirname(os.path.dirname(os.path.abspath(__file__))))
from vlib import selftest  # noqa: E402


def main():
    sid, patch, props = sys.argv[1:4]
    props = props.split(",")
    what = origin = ""
    a = sys.argv[4:]
    while a:
        if a[0] == "--what":
            what = a[1]
        elif a[0] == "--origin":
            origin = a[1]
        a = a[2:]
    dst = os.path.join(selftest.VERIF, "benign", sid)
    os.makedirs(dst, exist_ok=True)
    shutil.copy(patch, os.path.join(dst, "patch.diff"))
    meta = {"id": sid, "what": what, "origin": origin, "checks": {}}
    for i, p in enumerate(props):
        res = selftest.run_patch(os.path.join(dst, "patch.diff"), p, "benign-" + sid, with_tests=(i == 0))
        if i == 0:
            meta["test_suite_with_patch"] = res.get("suite")
        meta["checks"][p] = {"observed": res["observed"], "classes": res.get("classes", []), "wall_s": res.get("wall_s"), "notes": res.get("notes", []), "log": res.get("log", "")[-600:]}
        print("%s: check %s -> %s %s" % (sid, p, res["observed"], ",".join(res.get("classes", []))[:300]), flush=True)
    meta["all_silent"] = all(v["observed"] == "silent" for v in meta["checks"].values())
    json.dump(meta, open(os.path.join(dst, "meta.json"), "w"), indent=1)
    print(json.dumps({"id": sid, "suite": meta.get("test_suite_with_patch"), "all_silent": meta["all_silent"]}))


if __name__ == "__main__":
    main()
